"""Seeded generator of Norm-conforming programs (the grammar of DESIGN §4.1).

`gen_program(rng, ...)` draws one program; everything is a function of the
state of the `random.Random` passed in, nothing is kept at module level.  The
numeric limits of the Norm (80 columns with 4-column tab stops, 25 lines per
function body, 5 functions, 4 parameters, 5 declarations) hold by construction:
sizes are drawn first, text is rendered afterwards and a sub-expression that
would make a line too long is re-drawn with a smaller node budget, ending in a
one-token expression that always fits.

Constructs of the grammar that the current tool rejects are *not* generated;
they are listed in `REJECTED_CONSTRUCTS` with a minimal example.

Deliberate narrowings of §4.1 (the tool accepts the wider forms):
  * every identifier has one role in the file (names are never reused) and
    ordinary identifiers never start with `g_ t_ s_ u_ e_`, so that an edit
    operator can tell the roles apart;
  * `break ;` / `continue ;` are written with the space the tool demands;
  * member names, called-but-undefined functions and macro operands are drawn
    freely: the programs are lexically and syntactically C, not type-correct.
"""

import collections
import re

from .header import header42

TAB = 4
MAX_COLS = 80
MAX_BODY = 25
MAX_FUNCS = 5
MAX_PARAMS = 4
MAX_DECLS = 5

# Constructs of the §4.1 grammar that the current tool refuses and that are
# therefore never generated: (description, minimal example, diagnostics).
# The example is the text that follows `header42("x.c")`; the diagnostics are
# the Error-level (level, code, line) the tool gives for that file.
_F = "\nint\tf(int a, int b, char **p)\n{\n%s}\n"

REJECTED_CONSTRUCTS = [
    ("cast applied to a character constant: '(' Type ')' Chr",
     _F % "\treturn ((int)'c');\n",
     [("Error", "SPC_AFTER_PAR", 15)]),
    ("unary minus applied to a character constant: Un Chr",
     _F % "\treturn (-'c');\n",
     [("Error", "SPC_AFTER_OPERATOR", 15)]),
    ("bitwise not applied to a character constant: Un Chr",
     _F % "\treturn (~'c');\n",
     [("Error", "SPC_AFTER_OPERATOR", 15)]),
    ("unary minus / bitwise not applied to a string literal (Un Str; not valid "
     "C either, listed because the grammar derives it)",
     _F % "\treturn (-\"s\");\n",
     [("Error", "SPC_AFTER_OPERATOR", 15)]),
    ("string literal as left operand of '*' (Expr '*' Expr; not valid C either)",
     _F % "\treturn (\"s\" * 3);\n",
     [("Error", "SPC_AFTER_POINTER", 15)]),
    ("'*' after a cast applied to a parenthesised expression",
     _F % "\treturn ((int)(a + b) * b);\n",
     [("Error", "SPC_AFTER_POINTER", 15)]),
    ("'*' after a group that contains `<typedef name> *)`, e.g. a call whose "
     "last argument is sizeof(t_x *): the group is taken for a cast",
     _F % "\treturn (f(sizeof(t_x *)) * 3);\n",
     [("Error", "SPC_AFTER_POINTER", 15)]),
    ("'*' after a double index whose first index ends with a cast string",
     _F % "\treturn (p[(char *)\"s\"][a] * b);\n",
     [("Error", "SPC_AFTER_POINTER", 15)]),
    ("increment inside the index of an incremented lvalue: LV ('++'|'--') with "
     "LV ::= id '[' Expr ']' and Expr containing ++/--",
     _F % "\tp[++a]--;\n\treturn (a);\n",
     [("Error", "MULT_ASSIGN_LINE", 15)]),
    ("`break;` / `continue;` as written in the grammar; the tool (and the Norm: "
     "a keyword is followed by a space) wants `break ;`, which is what is "
     "generated",
     _F % "\twhile (a)\n\t\tbreak;\n\treturn (a);\n",
     [("Error", "SPACE_AFTER_KW", 16)]),
    ("brace-less Block whose single statement is a control structure with a "
     "braced body",
     _F % "\twhile (a)\n\t\tif (b)\n\t\t{\n\t\t\ta++;\n\t\t}\n\treturn (a);\n",
     [("Error", "MULT_IN_SINGLE_INSTR", 17)]),
    ("brace-less Block whose single statement is an if with an else branch",
     _F % ("\twhile (a)\n\t\tif (b)\n\t\t\ta++;\n\t\telse\n\t\t\tb++;\n"
           "\treturn (a);\n"),
     [("Error", "TOO_MANY_TAB", 18), ("Error", "TOO_MANY_TAB", 19)]),
    ("a `//` comment directly below the 42 header (no empty line): it is read "
     "as part of the header",
     "// c" + _F % "\treturn (a);\n",
     [("Error", "INVALID_HEADER", 12)]),
]

KEYWORDS = frozenset("""
auto break case char const continue default do double else enum extern float
for goto if inline int long register restrict return short signed sizeof static
struct switch typedef union unsigned void volatile while
""".split())

# names the tool treats specially (attribute syntax, `environ` exemption,
# preprocessor operator/directive names) plus type names of the grammar
SPECIAL = frozenset("""
__attribute__ environ defined define include undef ifdef ifndef elif endif
error warning pragma line import size_t main asm
""".split())

BASE_TYPES = ["int", "char", "long", "short", "unsigned int", "unsigned char",
              "size_t"]

ASSIGN_OPS = ["=", "+=", "-=", "*=", "/=", "%=", "&=", "|=", "^=", "<<=", ">>="]
BIN_OPS = ["+", "-", "*", "/", "%", "<", ">", "<=", ">=", "==", "!=", "&&",
           "||", "&", "|", "^", "<<", ">>"]
UN_OPS = ["-", "!", "~", "*", "&", "++", "--"]

INT_SUFFIXES = ["", "", "", "u", "l", "ul", "ll", "ull", "U", "L", "UL", "LL",
                "ULL", "lu", "LU", "uLL"]
FLOATS = ["1.5", ".5", "10.f", "1e3", "0x1p3", "0.0", "3.14f", "2.5e-3",
          "1E+9", "6.02e23", "0x1.8p1", "0XAP-2", "1.0L", "5.", ".25F", "1e3f"]
STR_PIECES = ["a", "b", "z", "A", "0", "9", " ", "_", "-", "+", "*", "/", "%d",
              "%s", "\\n", "\\t", "\\\\", "\\\"", "\\'", "\\0", "\\x41",
              "\\101", ";", "{", "}", "(", ")", "[", "]", ",", "#", "//", "/*",
              "*/", "'", "=", "<", ">", "&", "|", "!", "~", "?", ":", ".", "@",
              "$", "`", "^"]
CHARS = ["a", "z", "A", "Z", "0", "9", " ", "_", ";", "{", "}", "(", ")", "#",
         "\"", "/", "*", "\\n", "\\t", "\\0", "\\\\", "\\'", "\\\"", "\\r",
         "\\a", "\\b", "\\f", "\\v", "\\x7f", "\\101", "\\e", "?", "%", "="]
HEADER_NAMES = ["stdio", "stdlib", "unistd", "string", "fcntl", "limits",
                "stddef", "stdint", "math", "libft", "sys/types", "sys/stat"]


_UTYPE_STAR_RPAR = re.compile(r"\b(?:size_t|t_\w+) \*+\)").search


def _final_group(text):
    """(start, group): the last parenthesised group of a `text` ending in `)`.

    Literals are skipped, so parentheses inside strings do not count.
    """
    if not text.endswith(")"):
        return None
    stack, i, n, group = [], 0, len(text), None
    while i < n:
        ch = text[i]
        if ch in "\"'":
            i += 1
            while text[i] != ch:
                i += 2 if text[i] == "\\" else 1
        elif ch == "(":
            stack.append(i)
        elif ch == ")":
            start = stack.pop()
            group = (start, text[start:i + 1])
        i += 1
    return group


def _star_misread_after(left):
    """True when the tool would read a `*` that follows `left` as a pointer.

    (REJECTED_CONSTRUCTS: the left operand ends with a string literal, with a
    group containing `<user type> *)` such as `f(sizeof(t_x *))`, or with a
    cast applied to a parenthesised expression, `(int)(a + b)`.)
    """
    if left.endswith('"') or (left.endswith("]") and '"][' in left):
        return True
    found = _final_group(left)
    if found is None:
        return False
    start, group = found
    if start > 0 and left[start - 1] == ")":
        return True
    return _UTYPE_STAR_RPAR(group) is not None


def width(text, col=0):
    """Display width of `text` starting at column `col` (tab stops every 4)."""
    for ch in text:
        col = (col // TAB + 1) * TAB if ch == "\t" else col + 1
    return col


def tabs_to(col_from, col_to):
    """Tabs that bring a cursor at `col_from` exactly to the tab stop `col_to`."""
    assert col_to % TAB == 0 and col_to > col_from
    return "\t" * ((col_to - (col_from // TAB) * TAB) // TAB)


def align_column(prefixes):
    """Smallest tab stop strictly right of every prefix."""
    return max((width(p) // TAB + 1) * TAB for p in prefixes)


def guard_of(basename):
    """Include-guard macro the tool expects for a header file name (§4.14)."""
    return basename.upper().replace(".", "_")


class Program:
    """A generated program with the metadata used by the harness.

    Attributes (line numbers are 1-based and refer to `text`):
      name, kind, text, body_start_line, fields (header fields or None),
      items       [{"kind", "first_line", "last_line"}] for every top-level
                  item in order; kinds: include define global proto func
                  typedef guard_open guard_close empty comment ("comment" only
                  with comments=True; the 42 header itself is not an item, the
                  empty line after it is)
      functions   [{"name", "first_line", "open_brace_line", "close_brace_line",
                    "nparams", "nvars", "body_lines", "static"}]
      statements  [{"line", "kind", "depth"}] for every line strictly between
                  the braces of every function; kinds: decl assign incdec call
                  return break continue if "else if" else while lbrace rbrace
                  and "empty" for the separator line after the declarations;
                  depth = number of leading tabs
      identifiers sorted list of user identifiers occurring in the text
      productions Counter of grammar production names used
      string_literals / char_literals  [(line, col0, text)] outside #include
                  (col0 = 0-based character index in the line)
      comments    [(line, kind)] with kind "block" or "line"
    """

    def __init__(self):
        self.name = ""
        self.kind = "c"
        self.text = ""
        self.body_start_line = 1
        self.fields = None
        self.items = []
        self.functions = []
        self.statements = []
        self.identifiers = []
        self.productions = collections.Counter()
        self.string_literals = []
        self.char_literals = []
        self.comments = []

    @property
    def lines(self):
        """The lines of `text` without their newline (index 0 = line 1)."""
        return self.text.split("\n")[:-1]

    def __repr__(self):
        return "<Program %s: %d lines, %d functions>" % (
            self.name, self.text.count("\n"), len(self.functions))


class _Scope:
    """Names visible while generating one function body."""

    def __init__(self):
        self.scalars = []     # plain variables
        self.pointers = []    # names declared with at least one star / array
        self.in_while = False
        self.returns_void = False


class _Gen:
    def __init__(self, rng, kind, header, max_funcs, max_depth, max_expr_nodes,
                 comments, fields):
        self.rng = rng
        self.kind = kind
        self.header = header
        self.max_funcs = max(1, min(max_funcs, MAX_FUNCS))
        self.max_depth = max(0, max_depth)
        self.max_nodes = max(1, max_expr_nodes)
        self.with_comments = comments
        self.fields = fields
        self.p = Program()
        self.p.kind = kind
        self.out = []            # emitted lines (no newline)
        self.used = set()        # every identifier of the file
        self.funcs = []          # callable names
        self.globals = []        # (name, is_pointer)
        self.macros = []
        self.typedefs = []       # t_ names
        self.prod = self.p.productions

    # ------------------------------------------------------------------ utils

    def emit(self, text):
        """Append one line, return its 1-based number."""
        assert "\n" not in text
        assert width(text) <= MAX_COLS, (width(text), text)
        self.out.append(text)
        return len(self.out)

    def item(self, kind, first, last=None):
        self.p.items.append({"kind": kind, "first_line": first,
                             "last_line": first if last is None else last})

    def empty(self):
        self.item("empty", self.emit(""))

    def chance(self, p):
        return self.rng.random() < p

    def pick(self, seq):
        return seq[self.rng.randrange(len(seq))]

    def ident(self, prefix="", maxlen=15):
        """A fresh identifier `[a-z][a-z0-9_]*` of at most `maxlen` chars."""
        rng = self.rng
        first = "abcdefghijklmnopqrstuvwxyz"
        rest = first + "0123456789_"
        for attempt in range(1000):
            room = maxlen - len(prefix)
            if rng.randrange(10) == 0:
                n = rng.randint(1, room)
            else:
                n = rng.randint(1, min(room, 3 + attempt // 20 + rng.randrange(5)))
            name = prefix + rng.choice(first) + "".join(
                rng.choice(rest) for _ in range(n - 1))
            if name in self.used or name in KEYWORDS or name in SPECIAL:
                continue
            if not prefix and len(name) > 1 and name[1] == "_" and name[0] in "gtsue":
                continue      # reserved for globals / user types
            self.used.add(name)
            return name
        raise AssertionError("identifier space exhausted")

    def macro_name(self):
        rng = self.rng
        first = "ABCDEFGHIJKLMNOPQRSTUVWXYZ"
        rest = first + "0123456789_"
        while True:
            n = rng.randint(1, 10)
            name = rng.choice(first) + "".join(rng.choice(rest) for _ in range(n - 1))
            if name not in self.used:
                self.used.add(name)
                return name

    # -------------------------------------------------------------- constants

    def int_const(self):
        rng = self.rng
        form = rng.randrange(6)
        if form == 0:
            self.prod["Const.dec"] += 1
            body = str(rng.choice([0, 1, 2, 7, 10, 42, 100, 255, 1024, 65535,
                                   2147483647, rng.randrange(100000)]))
        elif form == 1:
            self.prod["Const.oct"] += 1
            body = "0" + "".join(rng.choice("01234567") for _ in range(rng.randint(1, 4)))
        elif form == 2:
            self.prod["Const.hex"] += 1
            body = rng.choice(["0x", "0X"]) + "".join(
                rng.choice("0123456789abcdefABCDEF") for _ in range(rng.randint(1, 8)))
        elif form == 3:
            self.prod["Const.hex_b"] += 1
            body = "0x" + rng.choice("bB") + "".join(
                rng.choice("0123456789abB") for _ in range(rng.randint(1, 4)))
        elif form == 4:
            self.prod["Const.bin"] += 1
            body = rng.choice(["0b", "0B"]) + "".join(
                rng.choice("01") for _ in range(rng.randint(1, 8)))
        else:
            self.prod["Const.dec"] += 1
            body = str(rng.randrange(1, 1000))
        suffix = rng.choice(INT_SUFFIXES)
        if suffix:
            self.prod["Const.suffix"] += 1
        return body + suffix

    def const(self):
        if self.chance(0.2):
            self.prod["Const.float"] += 1
            return self.pick(FLOATS)
        return self.int_const()

    def string(self, maxlen=12):
        self.prod["Str"] += 1
        n = self.rng.randint(0, 5)
        body = ""
        for _ in range(n):
            piece = self.pick(STR_PIECES)
            if len(body) + len(piece) > maxlen:
                break
            body += piece
        body = body.replace("??", "?.")     # no trigraph material
        return '"%s"' % body

    def char(self):
        self.prod["Chr"] += 1
        return "'%s'" % self.pick(CHARS)

    # ------------------------------------------------------------ expressions

    def any_name(self, sc):
        pool = sc.scalars + sc.pointers + [g for g, _ in self.globals]
        if pool and self.chance(0.9):
            return self.pick(pool)
        if self.macros and self.chance(0.5):
            return self.pick(self.macros)
        if pool:
            return self.pick(pool)
        return None

    def lvalue_name(self, sc, pointer=None):
        if pointer is True:
            pool = sc.pointers + [g for g, p in self.globals if p]
        elif pointer is False:
            pool = sc.scalars + [g for g, p in self.globals if not p]
        else:
            pool = sc.scalars + sc.pointers + [g for g, _ in self.globals]
        return self.pick(pool) if pool else None

    def member(self):
        """A member name (re-used ones preferred, they are ordinary ids)."""
        if self.members and self.chance(0.7):
            return self.pick(self.members)
        name = self.ident(maxlen=8)
        self.members.append(name)
        return name

    def callee(self):
        if self.funcs and self.chance(0.6):
            return self.pick(self.funcs)
        if self.externals and self.chance(0.6):
            return self.pick(self.externals)
        name = self.ident(prefix="ft_" if self.chance(0.5) else "", maxlen=12)
        self.externals.append(name)
        return name

    def type_name(self, allow_void=False):
        r = self.rng.randrange(10)
        if allow_void and r == 0:
            return "void"
        if self.typedefs and r == 1:
            return self.pick(self.typedefs)
        return self.pick(BASE_TYPES)

    def cast_type(self):
        """`Type Stars` as written inside a cast or sizeof."""
        stars = self.rng.choice([0, 0, 1, 1, 2])
        t = self.type_name(allow_void=stars > 0)
        if t == "void" and stars == 0:
            stars = 1
        return t + (" " + "*" * stars if stars else "")

    def args(self, sc, nodes):
        n = self.rng.choice([0, 1, 1, 2, 2, 3])
        if n == 0:
            self.prod["Args.empty"] += 1
            return ""
        self.prod["Args.list"] += 1
        each = max(1, nodes // n)
        return ", ".join(self.expr(sc, each) for _ in range(n))

    def prim(self, sc, nodes, lvalue=False, no_chr=False, no_str=False):
        """Prim; with lvalue=True only forms that can be incremented/addressed,
        with no_chr=True never a character constant (REJECTED_CONSTRUCTS)."""
        rng = self.rng
        name = self.any_name(sc) if not lvalue else self.lvalue_name(sc)
        choices = []
        if name:
            choices += ["id"] * 6 + ["index"] * 2 + ["dot", "arrow"]
        if not lvalue:
            choices += ["const"] * 4 + ["call", "call"]
            if not no_chr:
                choices += ["chr"]
            if not no_str:
                choices += ["str"]
            if nodes > 1:
                choices += ["paren"]
            if name is None:
                choices += ["const"] * 4
        if not choices:
            self.prod["Prim.const"] += 1
            return self.const()
        form = rng.choice(choices)
        self.prod["Prim." + form] += 1
        if form == "id":
            return name
        if form == "const":
            return self.const()
        if form == "str":
            return self.string()
        if form == "chr":
            return self.char()
        if form == "call":
            return "%s(%s)" % (self.callee(), self.args(sc, nodes - 1))
        if form == "paren":
            return "(%s)" % self.expr(sc, nodes - 1)
        if form == "index":
            base = self.lvalue_name(sc, pointer=True) or name
            text = "%s[%s]" % (base, self.expr(sc, max(1, min(nodes - 1, 3))))
            if self.chance(0.15):
                self.prod["Prim.index2"] += 1
                text += "[%s]" % self.expr(sc, 1)
            return text
        sep = "." if form == "dot" else "->"
        text = name + sep + self.member()
        if self.chance(0.2):
            self.prod["Prim.member_chain"] += 1
            text += self.rng.choice([".", "->"]) + self.member()
        return text

    def expr(self, sc, nodes):
        """Expr with at most `nodes` nodes (operators, primaries, casts)."""
        rng = self.rng
        nodes = max(1, nodes)
        if nodes >= 3 and rng.randrange(100) < 55:
            self.prod["Expr.binary"] += 1
            op = rng.choice(BIN_OPS)
            left = rng.randint(1, nodes - 2)
            ltext = self.expr(sc, left)
            if op == "*" and _star_misread_after(ltext):
                op = "+"                               # REJECTED_CONSTRUCTS
            self.prod["Bin." + op] += 1
            return "%s %s %s" % (ltext, op, self.expr(sc, nodes - 1 - left))
        r = rng.randrange(100)
        if nodes >= 2 and r < 25:
            op = rng.choice(UN_OPS)
            self.prod["Expr.unary"] += 1
            self.prod["Un." + op] += 1
            if op in ("++", "--", "&"):
                if self.lvalue_name(sc) is None:
                    return "-" + self.prim(sc, nodes - 1)
                return op + self.prim(sc, nodes - 1, lvalue=True)
            if op == "*":
                base = self.lvalue_name(sc, pointer=True) or self.lvalue_name(sc)
                if base is None:
                    return "-" + self.prim(sc, nodes - 1)
                if nodes >= 4 and self.chance(0.3):
                    self.prod["Un.*paren"] += 1
                    return "*(%s + %s)" % (base, self.expr(sc, nodes - 3))
                return "*" + base
            return op + self.prim(sc, nodes - 1, no_chr=op in "-~", no_str=op in "-~")
        if nodes >= 2 and 25 <= r < 35:
            self.prod["Expr.cast"] += 1
            operand = self.prim(sc, nodes - 1, no_chr=True)
            return "(%s)%s" % (self.cast_type(), operand)
        if 35 <= r < 42:
            self.prod["Expr.sizeof"] += 1
            return "sizeof(%s)" % self.cast_type()
        if nodes >= 2 and 42 <= r < 50:
            self.prod["Expr.paren"] += 1
            return "(%s)" % self.expr(sc, nodes - 1)
        self.prod["Expr.prim"] += 1
        return self.prim(sc, nodes)

    def fit_expr(self, sc, room, nodes=None):
        """An expression of display width <= room; shrinks the node budget.

        A draw that does not fit is undone (identifiers, production counts) so
        that the metadata only speaks of what is in the text.
        """
        nodes = self.max_nodes if nodes is None else nodes
        while nodes >= 1:
            saved = (set(self.used), list(self.members), list(self.externals),
                     collections.Counter(self.prod))
            text = self.expr(sc, nodes)
            if len(text) <= room:
                return text
            self.used, self.members, self.externals = saved[:3]
            self.prod.clear()
            self.prod.update(saved[3])
            self.prod["(shrink)"] += 1
            nodes //= 2
        name = self.any_name(sc)
        if name and len(name) <= room:
            return name
        assert room >= 1
        return "0"

    # -------------------------------------------------------------- statements

    def stmt_line(self, kind, depth, text):
        ln = self.emit("\t" * depth + text)
        self.p.statements.append({"line": ln, "kind": kind, "depth": depth})
        return ln

    def lvalue(self, sc, room, plain_index=False):
        """LV; with plain_index=True an index is an identifier or a constant."""
        rng = self.rng
        name = self.lvalue_name(sc)
        r = rng.randrange(10)
        if r < 5:
            self.prod["LV.id"] += 1
            return name
        if r < 7:
            base = self.lvalue_name(sc, pointer=True)
            if base:
                self.prod["LV.star"] += 1
                return rng.choice(["*", "*", "**"]) + base
            self.prod["LV.id"] += 1
            return name
        if r < 9:
            self.prod["LV.index"] += 1
            base = self.lvalue_name(sc, pointer=True) or name
            if plain_index:
                index = self.lvalue_name(sc) if self.chance(0.5) else self.int_const()
            else:
                index = self.fit_expr(sc, max(1, room - len(base) - 2), 3)
            return "%s[%s]" % (base, index)
        self.prod["LV.member"] += 1
        return name + rng.choice([".", "->"]) + self.member()

    def simple_stmt(self, sc, depth):
        """One single-line statement at `depth`."""
        rng = self.rng
        room = MAX_COLS - depth * TAB
        has_lv = self.lvalue_name(sc) is not None
        kinds = ["call"] * 3 + ["return"] * 2
        if has_lv:
            kinds += ["assign"] * 8 + ["incdec"] * 2
        if sc.in_while:
            kinds += ["break", "continue"]
        kind = rng.choice(kinds)
        if kind == "assign":
            self.prod["Stmt.assign"] += 1
            op = rng.choice(ASSIGN_OPS) if self.chance(0.6) else "="
            self.prod["AOp." + op] += 1
            lv = self.lvalue(sc, room // 3)
            rhs = self.fit_expr(sc, room - len(lv) - len(op) - 3)
            self.stmt_line("assign", depth, "%s %s %s;" % (lv, op, rhs))
        elif kind == "incdec":
            self.prod["Stmt.incdec"] += 1
            lv = self.lvalue(sc, room // 3, plain_index=True)
            self.stmt_line("incdec", depth, lv + rng.choice(["++", "--"]) + ";")
        elif kind == "call":
            self.prod["Stmt.call"] += 1
            name = self.callee()
            n = rng.choice([0, 1, 1, 2, 3])
            args = []
            left = room - len(name) - 3
            for i in range(n):
                share = (left - 2 * (n - i - 1)) // (n - i)
                if share < 1:
                    break
                a = self.fit_expr(sc, share, max(1, self.max_nodes // n))
                args.append(a)
                left -= len(a) + 2
            self.prod["Args.list" if args else "Args.empty"] += 1
            self.stmt_line("call", depth, "%s(%s);" % (name, ", ".join(args)))
        elif kind == "return":
            if sc.returns_void or self.chance(0.15):
                self.prod["Stmt.return_void"] += 1
                self.stmt_line("return", depth, "return ;")
            else:
                self.prod["Stmt.return_expr"] += 1
                e = self.fit_expr(sc, room - len("return ();"))
                self.stmt_line("return", depth, "return (%s);" % e)
        else:
            self.prod["Stmt." + kind] += 1
            self.stmt_line(kind, depth, kind + " ;")

    def block(self, sc, depth, budget, last_branch):
        """Block(d) using at most `budget` >= 1 lines; returns lines used.

        A brace-less body is one statement; when that statement is itself a
        control structure it is a single brace-less `if`/`while` without
        `else` (anything else is refused by the tool, see REJECTED_CONSTRUCTS)
        and only below the last branch of a chain (no dangling else).
        """
        braces = budget >= 3 and self.chance(0.55)
        if braces:
            self.prod["Block.braces"] += 1
            self.stmt_line("lbrace", depth, "{")
            inner = self.rng.randint(1, min(budget - 2, 4))
            used = self.stmts(sc, depth + 1, inner)
            self.stmt_line("rbrace", depth, "}")
            return used + 2
        self.prod["Block.single"] += 1
        if last_branch and budget >= 2 and depth < self.max_depth and self.chance(0.3):
            self.prod["Block.single_nested"] += 1
            return self.bare_compound(sc, depth + 1, budget)
        self.simple_stmt(sc, depth + 1)
        return 1

    def bare_compound(self, sc, depth, budget):
        """`if (e)` / `while (e)` followed by a brace-less Block."""
        room = MAX_COLS - depth * TAB
        saved = sc.in_while
        if self.chance(0.4):
            self.prod["Stmt.while"] += 1
            cond = self.fit_expr(sc, room - len("while ()"))
            self.stmt_line("while", depth, "while (%s)" % cond)
            sc.in_while = True
        else:
            self.prod["Stmt.if"] += 1
            cond = self.fit_expr(sc, room - len("if ()"))
            self.stmt_line("if", depth, "if (%s)" % cond)
        if budget >= 3 and depth < self.max_depth and self.chance(0.3):
            self.prod["Block.single"] += 1
            self.prod["Block.single_nested"] += 1
            used = 1 + self.bare_compound(sc, depth + 1, budget - 1)
        else:
            self.prod["Block.single"] += 1
            self.simple_stmt(sc, depth + 1)
            used = 2
        sc.in_while = saved
        return used

    def compound(self, sc, depth, budget):
        """An if-chain or a while at `depth`; needs budget >= 2."""
        room = MAX_COLS - depth * TAB
        if self.chance(0.35):
            self.prod["Stmt.while"] += 1
            cond = self.fit_expr(sc, room - len("while ()"))
            self.stmt_line("while", depth, "while (%s)" % cond)
            if self.chance(0.3):
                # empty loop body: the `;` alone on the next line, one level deeper
                self.prod["Stmt.while_empty"] += 1
                self.stmt_line("semicolon", depth + 1, ";")
                return 2
            saved, sc.in_while = sc.in_while, True
            used = 1 + self.block(sc, depth, budget - 1, True)
            sc.in_while = saved
            return used
        self.prod["Stmt.if"] += 1
        # number of branches: if (+ else if)* (+ else)?, each needs >= 2 lines
        max_br = min(budget // 2, 4)
        nbr = 1
        while nbr < max_br and self.chance(0.35):
            nbr += 1
        has_else = nbr > 1 and self.chance(0.6)
        used = 0
        for b in range(nbr):
            remaining = nbr - b - 1
            avail = budget - used - 2 * remaining
            if b == 0:
                cond = self.fit_expr(sc, room - len("if ()"))
                self.stmt_line("if", depth, "if (%s)" % cond)
            elif b == nbr - 1 and has_else:
                self.prod["Stmt.else"] += 1
                self.stmt_line("else", depth, "else")
            else:
                self.prod["Stmt.else_if"] += 1
                cond = self.fit_expr(sc, room - len("else if ()"))
                self.stmt_line("else if", depth, "else if (%s)" % cond)
            used += 1 + self.block(sc, depth, avail - 1, remaining == 0)
        return used

    def stmts(self, sc, depth, budget):
        """Stmt(d)+ in at most `budget` lines; returns lines used (>= 1)."""
        used = 0
        while used < budget:
            left = budget - used
            if left >= 2 and depth <= self.max_depth and self.chance(0.35):
                used += self.compound(sc, depth, left)
            else:
                self.simple_stmt(sc, depth)
                used += 1
            if used >= 1 and self.chance(0.12):
                break
        return used

    # ----------------------------------------------------------- declarations

    def stars(self):
        return "*" * self.rng.choice([0, 0, 0, 0, 1, 1, 2])

    def var_type(self, stars):
        """Type of a variable / parameter / return value; void needs a star."""
        return self.type_name(allow_void=bool(stars))

    def const_expr(self, pointer_char=False):
        """Initialiser of a global / static: Const, Chr, Str or a macro."""
        r = self.rng.randrange(10)
        if pointer_char:
            return self.string()
        if r < 6:
            return self.int_const()
        if r < 7:
            self.prod["Const.float"] += 1
            return self.pick(FLOATS)
        if r < 8:
            return self.char()
        if r < 9 and self.macros:
            return self.pick(self.macros)
        return "-" + self.int_const()

    def params(self, sc, room):
        """Parameter list text fitting in `room` columns, registers the names."""
        rng = self.rng
        n = rng.choice([0, 1, 1, 2, 2, 3, 4])
        if n == 0:
            self.prod["Params.void"] += 1
            return "void", 0
        maxlen = 15
        while True:
            parts = []
            for _ in range(n):
                stars = self.stars()
                t = self.var_type(stars)
                const = "const " if self.chance(0.2) else ""
                parts.append((const, t, stars))
            # names are drawn last so that a retry does not leak identifiers
            fixed = sum(len(c) + len(t) + 1 + len(s) for c, t, s in parts) + 2 * (n - 1)
            if fixed + n * 1 <= room:
                break
            self.prod["(shrink)"] += 1
            n -= 1
            if n == 0:
                self.prod["Params.void"] += 1
                return "void", 0
        self.prod["Params.list"] += 1
        per_name = max(1, min(maxlen, (room - fixed) // n))
        texts = []
        for const, t, s in parts:
            if const:
                self.prod["Param.const"] += 1
            name = self.ident(maxlen=per_name)
            (sc.pointers if s else sc.scalars).append(name)
            texts.append("%s%s %s%s" % (const, t, s, name))
        return ", ".join(texts), n

    def func_signature(self):
        """(static?, text before the tab(s), stars) of a function / prototype."""
        static = self.chance(0.3)
        stars = self.stars()
        t = self.var_type(stars) if not self.chance(0.25) else "void"
        prefix = ("static " if static else "") + t
        return static, prefix, stars

    def function(self):
        rng = self.rng
        sc = _Scope()
        self.prod["Func"] += 1
        name = self.ident(prefix="ft_" if self.chance(0.4) else "", maxlen=15)
        static, prefix, stars = self.func_signature()
        if static:
            self.prod["Func.static"] += 1
        sc.returns_void = prefix.endswith("void") and not stars
        head = prefix + "\t" + stars + name + "("
        ptext, nparams = self.params(sc, MAX_COLS - width(head) - 1)
        first = self.emit(head + ptext + ")")
        open_line = self.emit("{")
        # declarations
        ndecl = rng.choice([0, 1, 1, 2, 2, 3, 3, 4, 5])
        if nparams == 0 and ndecl == 0 and not self.globals:
            ndecl = 1
        decls = []
        for _ in range(ndecl):
            dstars = self.stars()
            t = self.var_type(dstars)
            dstatic = self.chance(0.15)
            array = not dstatic and self.chance(0.15)
            dname = self.ident(maxlen=12)
            decls.append((("static " if dstatic else "") + t, dstars, dname,
                          array, dstatic))
        if decls:
            self.prod["Decls"] += 1
            col = align_column(["\t" + d[0] for d in decls])
            if self.chance(0.15):
                self.prod["Decls.extra_tab"] += 1
                col += TAB
            for dprefix, dstars, dname, array, dstatic in decls:
                self.prod["Decl"] += 1
                text = "\t" + dprefix
                text += tabs_to(width(text), col) + dstars + dname
                if array:
                    self.prod["Decl.array"] += 1
                    text += "[%s]" % rng.choice(["1", "2", "10", "42", "0x10", "256"])
                if dstatic:
                    self.prod["Decl.static_init"] += 1
                    text += " = " + self.const_expr(
                        pointer_char=dprefix.endswith("char") and dstars == "*")
                self.stmt_line_raw("decl", 1, text + ";")
                (sc.pointers if dstars or array else sc.scalars).append(dname)
            self.stmt_line_raw("empty", 0, "")
        else:
            self.prod["Decls.none"] += 1
        budget = MAX_BODY - (ndecl + 1 if ndecl else 0)
        final_return = not sc.returns_void and self.chance(0.8)
        if final_return:
            budget -= 1
        if self.chance(0.05):
            self.prod["Func.full_body"] += 1
            used = 0
            while used < budget:
                used += self.stmts(sc, 1, budget - used)
        elif not (final_return and self.chance(0.2)):
            self.stmts(sc, 1, rng.randint(1, min(budget, 10)))
        if final_return:
            self.prod["Stmt.return_expr"] += 1
            e = self.fit_expr(sc, MAX_COLS - TAB - len("return ();"))
            self.stmt_line("return", 1, "return (%s);" % e)
        close_line = self.emit("}")
        body_lines = close_line - open_line - 1
        assert body_lines <= MAX_BODY, body_lines
        self.p.functions.append({
            "name": name, "first_line": first, "open_brace_line": open_line,
            "close_brace_line": close_line, "nparams": nparams, "nvars": ndecl,
            "body_lines": body_lines, "static": static})
        self.item("func", first, close_line)
        self.funcs.append(name)

    def stmt_line_raw(self, kind, depth, text):
        """A body line whose text already carries its indentation."""
        ln = self.emit(text)
        self.p.statements.append({"line": ln, "kind": kind, "depth": depth})

    # ----------------------------------------------------------- top level

    def proto_parts(self):
        """One prototype as (prefix, stars + name, name); params come later."""
        name = self.ident(prefix="ft_" if self.chance(0.4) else "", maxlen=12)
        static, prefix, stars = self.func_signature()
        if self.kind == "h":
            prefix = prefix.replace("static ", "")
            static = False
        return prefix, stars + name, name, static

    def plan_protos(self, ngroups):
        """Draw every prototype group of the file; they share one column."""
        groups = [[self.proto_parts()
                   for _ in range(self.rng.choice([1, 1, 2, 2, 3, 4]))]
                  for _ in range(ngroups)]
        flat = [p[0] for g in groups for p in g]
        self.proto_col = align_column(flat) if flat else None
        if flat and self.chance(0.1):
            self.prod["Protos.extra_tab"] += 1
            self.proto_col += TAB
        return groups

    def protos(self, group):
        for prefix, rest, name, static in group:
            self.prod["Proto"] += 1
            if static:
                self.prod["Proto.static"] += 1
            head = prefix + tabs_to(width(prefix), self.proto_col) + rest + "("
            ptext, _ = self.params(_Scope(), MAX_COLS - width(head) - 2)
            self.item("proto", self.emit(head + ptext + ");"))
            self.funcs.append(name)

    def global_parts(self):
        rng = self.rng
        qual = rng.choice(["static ", "const ", "static const ", "static ", ""])
        stars = self.stars()
        t = self.var_type(stars)
        name = self.ident(prefix="g_", maxlen=12)
        return qual + t, stars, name, qual

    def plan_globals(self, ngroups):
        """Draw every global of the file; they all share one column."""
        groups = [[self.global_parts()
                   for _ in range(self.rng.choice([1, 1, 1, 2, 3]))]
                  for _ in range(ngroups)]
        flat = [p[0] for g in groups for p in g]
        self.global_col = align_column(flat) if flat else None
        return groups

    def globals_group(self, group):
        for prefix, stars, name, qual in group:
            self.prod["Global"] += 1
            self.prod["Global.qual." + (qual.strip().replace(" ", "_") or "none")] += 1
            text = prefix + tabs_to(width(prefix), self.global_col) + stars + name
            if self.chance(0.5) or "const" in prefix:
                self.prod["Global.init"] += 1
                text += " = " + self.const_expr(
                    pointer_char=prefix.endswith("char") and stars == "*")
            self.item("global", self.emit(text + ";"))
            self.globals.append((name, bool(stars)))

    def includes(self, indent=""):
        n = self.rng.randint(1, 3)
        for _ in range(n):
            self.prod["Include"] += 1
            if self.chance(0.5):
                self.prod["Include.angle"] += 1
                text = "<%s.h>" % self.pick(HEADER_NAMES)
            else:
                self.prod["Include.quote"] += 1
                text = '"%s.h"' % self.pick(HEADER_NAMES + ["libft", "ft_printf"])
            self.item("include", self.emit("#%sinclude %s" % (indent, text)))

    def defines(self, indent=""):
        n = self.rng.randint(1, 3)
        for _ in range(n):
            self.prod["Define"] += 1
            name = self.macro_name()
            r = self.rng.randrange(10)
            if r < 5:
                self.prod["Define.const"] += 1
                value = self.const()
            elif r < 7:
                self.prod["Define.str"] += 1
                value = self.string(maxlen=20)
            elif r < 8:
                self.prod["Define.chr"] += 1
                value = self.char()
            elif r < 9 and self.macros:
                self.prod["Define.macro"] += 1
                value = self.pick(self.macros)
            else:
                self.prod["Define.neg"] += 1
                value = "-" + self.int_const()
            self.item("define", self.emit("#%sdefine %s %s" % (indent, name, value)))
            self.macros.append(name)

    def comment(self):
        """A comment item (only called with comments=True, at top level)."""
        rng = self.rng
        words = ["todo", "see", "norm", "x", "if (a)", "return ;", "int a;",
                 "#define", "\"q", "'", "{", "}", "tab\there", "a  b", "42"]
        text = " ".join(rng.choice(words) for _ in range(rng.randint(0, 4)))
        r = rng.randrange(3)
        if r == 0:
            self.prod["Comment.line"] += 1
            ln = self.emit(("// " + text).rstrip())
            self.p.comments.append((ln, "line"))
            self.item("comment", ln)
        elif r == 1:
            self.prod["Comment.block"] += 1
            ln = self.emit("/* " + text + (" " if text else "") + "*/")
            self.p.comments.append((ln, "block"))
            self.item("comment", ln)
        else:
            self.prod["Comment.multiline"] += 1
            first = self.emit("/*")
            for _ in range(rng.randint(1, 3)):
                t = " ".join(rng.choice(words) for _ in range(rng.randint(0, 3)))
                self.emit(("** " + t).rstrip())
            last = self.emit("*/")
            self.p.comments.append((first, "block"))
            self.item("comment", first, last)

    def maybe_comment(self):
        """Sometimes a comment item; never glued to the 42 header (a comment
        there would be read as part of the header by the tool)."""
        glued = self.header and len(self.out) == 11
        if self.with_comments and not glued and self.chance(0.35):
            self.comment()

    # --------------------------------------------------------------- typedefs

    def typedef(self):
        rng = self.rng
        kind = rng.choice(["struct", "struct", "union", "enum"])
        self.prod["TypeDef." + kind] += 1
        tag = self.ident(prefix={"struct": "s_", "union": "u_", "enum": "e_"}[kind],
                         maxlen=12)
        tname = self.ident(prefix="t_", maxlen=12)
        first = self.emit("typedef %s %s" % (kind, tag))
        self.emit("{")
        if kind == "enum":
            for _ in range(rng.randint(1, 5)):
                self.prod["TypeDef.enumerator"] += 1
                self.emit("\t" + self.macro_name() + ",")
            col = TAB
        else:
            members = []
            for _ in range(rng.randint(1, 5)):
                stars = self.stars()
                members.append((self.var_type(stars), stars, self.ident(maxlen=12)))
            col = align_column(["\t" + m[0] for m in members])
            for t, stars, name in members:
                self.prod["TypeDef.member"] += 1
                text = "\t" + t
                self.emit(text + tabs_to(width(text), col) + stars + name + ";")
        last = self.emit("}" + tabs_to(1, col) + tname + ";")
        self.item("typedef", first, last)
        self.typedefs.append(tname)

    # ------------------------------------------------------------------ files

    def start(self, name):
        self.p.name = name
        self.members = []
        self.externals = []
        self.proto_col = None
        self.global_col = None
        if self.header:
            fields = self.fields or {}
            self.p.fields = dict(fields)
            for line in header42(name, **fields).split("\n")[:-1]:
                self.out.append(line)
            if self.chance(0.9):
                self.prod["Header42.empty_line"] += 1
                self.empty()
            else:
                self.prod["Header42.no_empty_line"] += 1
        self.p.body_start_line = len(self.out) + 1

    def c_file(self):
        rng = self.rng
        base = self.ident(prefix="ft_" if self.chance(0.5) else "", maxlen=12)
        self.basename = base
        self.start(base + ".c")
        self.prod["CFile"] += 1
        if self.chance(0.6):
            self.prod["Includes"] += 1
            self.maybe_comment()
            self.includes()
            self.empty()
        if self.chance(0.5):
            self.prod["Defines"] += 1
            self.maybe_comment()
            self.defines()
            self.empty()
        nfuncs = rng.randint(1, self.max_funcs)
        tops = ["func"] * nfuncs
        nglob = rng.choice([0, 0, 1, 1, 2])
        for _ in range(nglob):
            tops.insert(rng.randrange(len(tops) + 1), "global")
        nproto = rng.choice([0, 0, 0, 1, 1, 2])
        for _ in range(nproto):
            tops.insert(rng.randrange(len(tops)), "proto")
        ggroups = self.plan_globals(nglob)
        pgroups = self.plan_protos(nproto)
        for i, top in enumerate(tops):
            if i:
                self.empty()
            self.maybe_comment()
            if top == "func":
                self.function()
            elif top == "global":
                self.prod["Top.Global"] += 1
                self.globals_group(ggroups.pop(0))
            else:
                self.prod["Top.Protos"] += 1
                self.protos(pgroups.pop(0))

    def h_file(self):
        rng = self.rng
        base = self.ident(maxlen=12)
        self.basename = base
        name = base + ".h"
        self.start(name)
        self.prod["HFile"] += 1
        guard = guard_of(name)
        self.used.add(guard)
        first = self.emit("#ifndef " + guard)
        self.item("guard_open", first, self.emit("# define " + guard))
        self.empty()
        if self.chance(0.6):
            self.prod["Includes"] += 1
            self.includes(indent=" ")
            self.empty()
        if self.chance(0.6):
            self.prod["Defines"] += 1
            self.defines(indent=" ")
            self.empty()
        for _ in range(rng.choice([0, 1, 1, 2, 3])):
            self.maybe_comment()
            self.typedef()
            self.empty()
        if self.chance(0.7):
            self.prod["Top.Protos"] += 1
            self.maybe_comment()
            self.protos(self.plan_protos(1)[0])
            self.empty()
        self.item("guard_close", self.emit("#endif"))

    # ----------------------------------------------------------------- finish

    def finish(self):
        p = self.p
        p.text = "".join(l + "\n" for l in self.out)
        p.identifiers = sorted(self.used - {self.basename})
        start = p.body_start_line - 1
        for idx in range(start, len(self.out)):
            line = self.out[idx]
            if line.lstrip("# ").startswith("include"):
                continue
            _scan_literals(line, idx + 1, p.string_literals, p.char_literals)
        return p


def _scan_literals(line, lineno, strings, chars):
    """Record the string / char literals of one code line (no comments in it)."""
    if line.startswith(("//", "/*", "**", "*/")):
        return
    i, n = 0, len(line)
    while i < n:
        ch = line[i]
        if ch in "\"'":
            j = i + 1
            while line[j] != ch:
                j += 2 if line[j] == "\\" else 1
            (strings if ch == '"' else chars).append((lineno, i, line[i:j + 1]))
            i = j + 1
        else:
            i += 1


def gen_program(rng, kind="c", header=True, max_funcs=3, max_depth=2,
                max_expr_nodes=8, comments=False, fields=None):
    """Draw one conforming program of the given kind ("c" or "h")."""
    assert kind in ("c", "h")
    g = _Gen(rng, kind, header, max_funcs, max_depth, max_expr_nodes, comments,
             fields)
    if kind == "c":
        g.c_file()
    else:
        g.h_file()
    return g.finish()
