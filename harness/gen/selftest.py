#!/usr/bin/env python3
"""Self-test of the generators against the current norminette tree.

    PYTHONPATH=/repo /venv/bin/python selftest.py [N] [--jobs J] [--sites K]

Re-runs, on N generated programs (default 300; seeds 0..N-1, every third one a
header file, every fifth one with comments, every fourth one with random 42
header fields):

  1. acceptance   the tool reports no Error-level diagnostic, does not raise
                  and does not hang on any generated program;
  2. metadata     line numbers / kinds / counts of `Program` agree with the text,
                  the Norm limits hold, generation is deterministic;
  3. operators    every operator of `mutate.OPERATORS` x up to K sites (default
                  10) per program: the expected code is reported on the
                  expected line;
  4. records      every `REJECTED_CONSTRUCTS` / `INCONSISTENT` example still
                  behaves as recorded, every header mutation yields exactly one
                  INVALID_HEADER.

Prints the production counts, the per-operator hit counts and the failures;
exits 0 iff everything passes.
"""

import collections
import importlib.util
import multiprocessing
import os
import random
import re
import signal
import sys
import time
import traceback

HERE = os.path.dirname(os.path.abspath(__file__))
sys.path.insert(0, os.path.dirname(HERE))
if importlib.util.find_spec("norminette") is None:
    sys.path.insert(0, "/repo")

from norminette.file import File                    # noqa: E402
from norminette.lexer import Lexer                  # noqa: E402
from norminette.context import Context              # noqa: E402
from norminette.registry import Registry            # noqa: E402
from norminette.exceptions import CParsingError     # noqa: E402

from gen import grammar, mutate                     # noqa: E402
from gen.header import (header42, random_fields,    # noqa: E402
                        HEADER_MUTATIONS)

TIMEOUT = 30


class _Timeout(Exception):
    pass


def _alarm(signum, frame):
    raise _Timeout()


def diagnose(name, text):
    """[(level, code, line, column)] of the real pipeline; fatal errors,
    exceptions and hangs come back as pseudo-diagnostics of level "Fatal"."""
    signal.signal(signal.SIGALRM, _alarm)
    signal.alarm(TIMEOUT)
    try:
        f = File(name, text)
        Registry().run(Context(f, list(Lexer(f))))
        return [(e.level, e.name, e.highlights[0].lineno, e.highlights[0].column)
                for e in f.errors]
    except CParsingError as e:
        return [("Fatal", "CParsingError: %s" % str(e)[:80], 0, 0)]
    except _Timeout:
        return [("Fatal", "hang (> %d s)" % TIMEOUT, 0, 0)]
    except Exception as e:      # noqa: BLE001
        return [("Fatal", "exception %r" % (e,), 0, 0)]
    finally:
        signal.alarm(0)


def make_program(seed):
    rng = random.Random(seed)
    fields = random_fields(rng) if seed % 4 == 1 else None
    return grammar.gen_program(rng, kind="h" if seed % 3 == 2 else "c",
                               header=True, comments=(seed % 5 == 4),
                               fields=fields)


# ------------------------------------------------------------ metadata checks

_PPNUMBER = re.compile(r"(?<![\w.])\.?\d(?:[eEpP][+-]|[\w.])*")
_WORD = re.compile(r"[A-Za-z_]\w*")
_NOT_USER = grammar.KEYWORDS | {"size_t", "define", "include", "ifndef", "endif"}


def _strip_literals(line):
    mask = mutate._code_mask(line)
    return "".join(ch if ok else " " for ch, ok in zip(line, mask))


def _classify(text):
    """Statement kind of a body line from its text alone."""
    t = text.lstrip("\t")
    if text == "":
        return "empty"
    if t == "{":
        return "lbrace"
    if t == "}":
        return "rbrace"
    for kw, kind in (("else if (", "else if"), ("if (", "if"), ("while (", "while")):
        if t.startswith(kw):
            return kind
    if t == "else":
        return "else"
    if t in ("break ;", "continue ;"):
        return t[:-2]
    if t == "return ;" or t.startswith("return ("):
        return "return"
    if "\t" in t:
        return "decl"
    code = _strip_literals(t)
    if re.search(r" (?:<<=|>>=|[-+*/%&|^]?=) ", code):
        return "assign"
    if code.endswith(("++;", "--;")):
        return "incdec"
    return "call"


def check_metadata(p, seed):
    """List of problems of one program (empty when everything agrees)."""
    bad = []
    lines = p.text.split("\n")
    if lines[-1] != "":
        bad.append("text does not end with a newline")
    lines = lines[:-1]
    n = len(lines)
    for i, l in enumerate(lines, 1):
        if grammar.width(l) > grammar.MAX_COLS:
            bad.append("line %d is %d columns wide" % (i, grammar.width(l)))
        if l != l.rstrip():
            bad.append("line %d has trailing blanks" % i)
    # header
    if p.text[:81 * 11] != header42(p.name, **(p.fields or {})):
        bad.append("header differs from header42()")
    if p.body_start_line != (13 if lines[11] == "" else 12):
        bad.append("body_start_line %d" % p.body_start_line)
    # items tile the file below the header
    expect = 12
    for it in p.items:
        if it["first_line"] != expect or it["last_line"] < it["first_line"]:
            bad.append("item %r does not start on line %d" % (it, expect))
            break
        expect = it["last_line"] + 1
        first = lines[it["first_line"] - 1]
        ok = {
            "empty": first == "",
            "include": re.match(r"^# ?include [<\"]", first),
            "define": re.match(r"^# ?define [A-Z]", first),
            "global": "\t" in first and "g_" in first and first.endswith(";"),
            "proto": first.endswith(");"),
            "func": first.endswith(")") and lines[it["first_line"]] == "{",
            "typedef": first.startswith("typedef "),
            "guard_open": first == "#ifndef " + grammar.guard_of(p.name),
            "guard_close": first == "#endif",
            "comment": first.startswith(("//", "/*")),
        }[it["kind"]]
        if not ok:
            bad.append("item %r does not look like its kind: %r" % (it, first))
    else:
        if expect != n + 1:
            bad.append("items end on line %d of %d" % (expect - 1, n))
    # functions
    funcs = [it for it in p.items if it["kind"] == "func"]
    if len(funcs) != len(p.functions) or len(funcs) > grammar.MAX_FUNCS:
        bad.append("function count")
    if p.kind == "c" and not p.functions:
        bad.append("no function in a .c file")
    body_lines = set()
    stmt_at = {s["line"]: s for s in p.statements}
    for it, f in zip(funcs, p.functions):
        head = lines[f["first_line"] - 1]
        if (it["first_line"], it["last_line"]) != (f["first_line"], f["close_brace_line"]):
            bad.append("function %s: item range" % f["name"])
        if not re.search(r"\t\**%s\(" % re.escape(f["name"]), head) or head.count("\t") != 1:
            bad.append("function %s: header line %r" % (f["name"], head))
        if lines[f["open_brace_line"] - 1] != "{" or lines[f["close_brace_line"] - 1] != "}":
            bad.append("function %s: braces" % f["name"])
        if f["open_brace_line"] != f["first_line"] + 1:
            bad.append("function %s: open brace line" % f["name"])
        if f["body_lines"] != f["close_brace_line"] - f["open_brace_line"] - 1:
            bad.append("function %s: body_lines" % f["name"])
        if not 1 <= f["body_lines"] <= grammar.MAX_BODY:
            bad.append("function %s: %d body lines" % (f["name"], f["body_lines"]))
        params = head[head.index("(") + 1:-1]
        nparams = 0 if params == "void" else params.count(",") + 1
        if nparams != f["nparams"] or nparams > grammar.MAX_PARAMS:
            bad.append("function %s: nparams" % f["name"])
        rng = range(f["open_brace_line"] + 1, f["close_brace_line"])
        body_lines.update(rng)
        ndecl = sum(1 for ln in rng if ln in stmt_at and stmt_at[ln]["kind"] == "decl")
        if ndecl != f["nvars"] or ndecl > grammar.MAX_DECLS:
            bad.append("function %s: nvars" % f["name"])
        if head.startswith("static ") != f["static"]:
            bad.append("function %s: static" % f["name"])
    # statements
    if sorted(stmt_at) != sorted(body_lines) or len(stmt_at) != len(p.statements):
        bad.append("statements do not cover the function bodies exactly")
    for s in p.statements:
        l = lines[s["line"] - 1]
        depth = len(l) - len(l.lstrip("\t"))
        if s["depth"] != depth:
            bad.append("statement line %d: depth %d, text %r" % (s["line"], s["depth"], l))
        if _classify(l) != s["kind"]:
            bad.append("statement line %d: kind %s, text %r" % (s["line"], s["kind"], l))
    # identifiers
    words = set()
    strings, chars = [], []
    in_comment = False
    for i, l in enumerate(lines[11:], 12):
        if in_comment or l.startswith(("//", "/*")):
            in_comment = not l.endswith("*/") and not l.startswith("//")
            continue
        if re.match(r"^# ?include ", l):
            continue
        for m in re.finditer(r"\"(?:\\.|[^\"\\])*\"|'(?:\\.|[^'\\])*'", l):
            (strings if m.group(0)[0] == '"' else chars).append((i, m.start(), m.group(0)))
        code = _PPNUMBER.sub(" ", _strip_literals(l))
        words.update(_WORD.findall(code))
    words -= _NOT_USER
    if sorted(words) != p.identifiers:
        bad.append("identifiers: text has %r, metadata has %r" % (
            sorted(words - set(p.identifiers)), sorted(set(p.identifiers) - words)))
    if strings != p.string_literals:
        bad.append("string_literals differ")
    if chars != p.char_literals:
        bad.append("char_literals differ")
    # comments
    if p.comments and seed % 5 != 4:
        bad.append("comments without comments=True")
    for ln, kind in p.comments:
        if not lines[ln - 1].startswith("//" if kind == "line" else "/*"):
            bad.append("comment line %d" % ln)
    for it in p.items:
        if it["kind"] == "comment" and not any(c[0] == it["first_line"] for c in p.comments):
            bad.append("comment item %r not in comments" % it)
    # determinism
    q = make_program(seed)
    same = (q.text == p.text and q.items == p.items and q.functions == p.functions
            and q.statements == p.statements and q.identifiers == p.identifiers
            and q.productions == p.productions
            and q.string_literals == p.string_literals
            and q.char_literals == p.char_literals and q.comments == p.comments)
    if not same:
        bad.append("generation is not deterministic")
    return bad


# -------------------------------------------------------------------- workers

def check_program(args):
    """Everything about one seed; returns a picklable summary."""
    seed, max_sites = args
    out = {"seed": seed, "fail": [], "prod": None, "ops": []}
    try:
        p = make_program(seed)
    except Exception:      # noqa: BLE001
        out["fail"].append(("generate", seed, traceback.format_exc()))
        return out
    out["prod"] = p.productions
    out["kind"] = p.kind
    diags = diagnose(p.name, p.text)
    errors = [d for d in diags if d[0] != "Notice"]
    if errors:
        lines = p.text.split("\n")
        out["fail"].append(("accept", seed, [
            (d, lines[d[2] - 1] if d[2] else "") for d in errors]))
    try:
        for problem in check_metadata(p, seed):
            out["fail"].append(("metadata", seed, problem))
    except Exception:      # noqa: BLE001
        out["fail"].append(("metadata", seed, traceback.format_exc()))
    for op in mutate.OPERATORS:
        try:
            sites = op.sites(p)
            if sites != op.sites(p):
                out["fail"].append(("operator", seed, op.id, "sites() not deterministic"))
            if len(sites) > max_sites:
                pick = random.Random(seed * 7919 + len(sites))
                keep = set(pick.sample(range(len(sites)), max_sites))
                sites = [s for i, s in enumerate(sites) if i in keep]
            for site in sites:
                text, line = op.apply(p, site)
                got = diagnose(p.name, text)
                hit = any(d[1] in op.codes and d[2] == line for d in got)
                out["ops"].append((op.id, str(site[-1]), hit))
                if not hit:
                    out["fail"].append(("operator", seed, op.id, site, line,
                                        text.split("\n")[line - 1:line],
                                        [d[1:3] for d in got if d[0] != "Notice"]))
        except Exception:      # noqa: BLE001
            out["fail"].append(("operator", seed, op.id, traceback.format_exc()))
    return out


def check_records():
    """REJECTED_CONSTRUCTS, INCONSISTENT and the header mutations."""
    fail = []
    for desc, example, want in grammar.REJECTED_CONSTRUCTS:
        got = [d[:3] for d in diagnose("x.c", header42("x.c") + example)
               if d[0] != "Notice"]
        if got != want:
            fail.append(("rejected", desc, want, got))
    for id_, text, (codes, line), want in mutate.INCONSISTENT:
        name = "x.h" if "#ifndef X_H" in text else "x.c"
        got = [d[1:3] for d in diagnose(name, text) if d[0] != "Notice"]
        codes = codes if isinstance(codes, tuple) else (codes,)
        if got != want or any(c in codes and ln == line for c, ln in got):
            fail.append(("inconsistent", id_, want, got))
        if id_ not in mutate.BY_ID:
            fail.append(("inconsistent", id_, "unknown operator id"))
    body = "\nint\tmain(void)\n{\n\treturn (0);\n}\n"
    rng = random.Random(42)
    for k in range(40):
        fields = random_fields(rng) if k else {}
        h = header42("abc.c", **fields)
        if any(len(l) != 80 for l in h.split("\n")[:-1]) or h.count("\n") != 11:
            fail.append(("header", "shape", fields))
        if diagnose("abc.c", h + body):
            fail.append(("header", "not accepted", fields))
        for mid, mut in sorted(HEADER_MUTATIONS.items()):
            codes = [d[1] for d in diagnose("abc.c", mut(h) + body)]
            if codes.count("INVALID_HEADER") != 1:
                fail.append(("header", mid, fields, codes))
    return fail


# ----------------------------------------------------------------------- main

def main(argv):
    n, jobs, max_sites = 300, os.cpu_count() or 4, 10
    args = list(argv)
    while args:
        a = args.pop(0)
        if a == "--jobs":
            jobs = int(args.pop(0))
        elif a == "--sites":
            max_sites = int(args.pop(0))
        else:
            n = int(a)
    t0 = time.time()
    with multiprocessing.Pool(jobs) as pool:
        records = pool.apply_async(check_records)
        results = pool.map(check_program, [(s, max_sites) for s in range(n)],
                           chunksize=max(1, n // (jobs * 8)))
        record_failures = records.get()

    prod = collections.Counter()
    kinds = collections.Counter()
    ops = collections.defaultdict(lambda: [0, 0, collections.Counter()])
    failures = list(record_failures)
    for r in results:
        failures += r["fail"]
        if r["prod"]:
            prod.update(r["prod"])
            kinds[r["kind"]] += 1
        for id_, cls, hit in r["ops"]:
            ops[id_][0] += 1
            ops[id_][1] += hit
            ops[id_][2][cls] += 1

    print("== programs: %d (%s), %.0f s on %d processes" % (
        n, ", ".join("%d .%s" % (v, k) for k, v in sorted(kinds.items())),
        time.time() - t0, jobs))
    print("== productions (uses over all programs)")
    names = sorted(prod)
    for i in range(0, len(names), 4):
        print("   " + "".join("%-26s" % ("%s %d" % (k, prod[k])) for k in names[i:i + 4]))
    print("== operators: id, code, hits/sites tried, site classes")
    for op in mutate.OPERATORS:
        tried, hits, classes = ops[op.id]
        code = "|".join(op.codes)
        flag = "" if tried and tried == hits else "   <<< FAIL" if tried else "   <<< NO SITE"
        if not tried and n >= 100:
            failures.append(("operator", op.id, "no applicable site in %d programs" % n))
        print("   %-34s %-30s %5d/%-5d %d classes%s" % (
            op.id, code, hits, tried, len(classes), flag))
    print("== records: %d REJECTED_CONSTRUCTS, %d INCONSISTENT, %d NOT_ENFORCED, "
          "%d header mutations" % (len(grammar.REJECTED_CONSTRUCTS),
                                   len(mutate.INCONSISTENT), len(mutate.NOT_ENFORCED),
                                   len(HEADER_MUTATIONS)))
    print("== failures: %d" % len(failures))
    for f in failures[:60]:
        print("   ", f)
    if len(failures) > 60:
        print("    ... %d more" % (len(failures) - 60))
    print("PASS" if not failures else "FAIL")
    return 0 if not failures else 1


if __name__ == "__main__":
    sys.exit(main(sys.argv[1:]))
