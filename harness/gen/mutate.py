"""The violation catalogue of DESIGN §4.2 as edit operators.

Every `Operator` takes a conforming `grammar.Program`, a site returned by its
own `sites(program)`, and yields `(text, line)`: the mutated file and the
1-based line (in the mutated text) on which the current tool reports
`operator.code` (when `code` is a tuple, one of its members).

Operators are pure: they never modify the program, use no randomness and no
module state; `sites()` is deterministic and ordered by position.  A site is a
tuple whose last element is a short *site class* label (used by the statistics
of `selftest.py`; e.g. the kind of statement that is edited).

Lists at the end of the module:
  OPERATORS     validated operators (every site of every generated program
                checked so far reports the code on the stated line)
  NOT_ENFORCED  catalogue rows for which the tool never produces the code
  INCONSISTENT  rows that fire only on a sub-class of the sites the catalogue
                names; `sites()` is restricted to the firing class and the
                failing example is recorded here
"""

import re

from .grammar import (width, TAB, MAX_COLS, MAX_BODY, KEYWORDS, SPECIAL,
                      _final_group, _star_misread_after)

SIMPLE = ("assign", "incdec", "call", "return", "break", "continue")
CONTROL = ("if", "else if", "else", "while")


# ---------------------------------------------------------------- utilities

def _lines(p):
    return p.text.split("\n")[:-1]


def _join(lines):
    return "".join(l + "\n" for l in lines)


def _fresh(p, base="zz"):
    """An identifier that does not occur in the program."""
    used = set(p.identifiers)
    name, n = base, 0
    while name in used:
        name = "%s%d" % (base, n)
        n += 1
    return name


def _code_mask(line):
    """mask[i] is True when line[i] is outside string / char literals."""
    mask = [True] * len(line)
    i, n = 0, len(line)
    while i < n:
        ch = line[i]
        if ch in "\"'":
            j = i + 1
            while j < n and line[j] != ch:
                j += 2 if line[j] == "\\" else 1
            for k in range(i, min(j + 1, n)):
                mask[k] = False
            i = j + 1
        else:
            i += 1
    return mask


def _code_find(line, regex):
    """Matches of `regex` in `line` that start outside literals."""
    mask = _code_mask(line)
    return [m for m in regex.finditer(line)
            if all(mask[m.start():m.end()])]


def _func_of(p, line):
    for f in p.functions:
        if f["open_brace_line"] < line < f["close_brace_line"]:
            return f
    return None


def _stmts(p, kinds=None):
    return [s for s in p.statements if kinds is None or s["kind"] in kinds]


def _stmt_at(p):
    return {s["line"]: s for s in p.statements}


def _item_lines(p, kinds):
    """(line, kind) for every line of the single-line items of the given kinds."""
    return [(it["first_line"], it["kind"]) for it in p.items
            if it["kind"] in kinds and it["first_line"] == it["last_line"]]


def _decl_parts(text):
    """Split a declaration line into (prefix, tabs, stars, name, rest)."""
    m = re.match(r"^(\t[a-z_0-9 ]+?)(\t+)(\**)(\w+)(.*)$", text)
    return m.groups() if m else None


def _decl_like(p, func, name, type_="int"):
    """A declaration of `name` aligned with the declarations of `func`."""
    lines = _lines(p)
    for s in p.statements:
        if s["kind"] == "decl" and func["open_brace_line"] < s["line"] < func["close_brace_line"]:
            prefix, tabs, stars, _, _ = _decl_parts(lines[s["line"] - 1])
            col = width(prefix + tabs)
            head = "\t" + type_
            ntabs = (col - (width(head) // TAB) * TAB) // TAB
            if ntabs >= 1:
                return head + "\t" * ntabs + name + ";"
    return "\t%s\t%s;" % (type_, name)


def _func_decls(p, func):
    return [s for s in p.statements if s["kind"] == "decl"
            and func["open_brace_line"] < s["line"] < func["close_brace_line"]]


def _func_body(p, func):
    return [s for s in p.statements
            if func["open_brace_line"] < s["line"] < func["close_brace_line"]]


class Operator:
    """One row of the catalogue; see the module docstring."""

    def __init__(self, id, code, doc, sites, apply, kinds=("c", "h")):
        self.id = id
        self.code = code
        self.doc = doc
        self._sites = sites
        self._apply = apply
        self.kinds = kinds

    @property
    def codes(self):
        return self.code if isinstance(self.code, tuple) else (self.code,)

    def sites(self, program):
        if program.kind not in self.kinds:
            return []
        return self._sites(program)

    def apply(self, program, site):
        text, line = self._apply(program, site)
        return text, line

    def __repr__(self):
        return "<Operator %s -> %s>" % (self.id, self.code)


_CANDIDATES = []


def _op(id, code, doc, kinds=("c", "h")):
    """Decorator: `sites` is the decorated function, `.apply` is set next."""
    def deco(pair):
        sites, apply = pair()
        op = Operator(id, code, doc, sites, apply, kinds)
        _CANDIDATES.append(op)
        return op
    return deco


def _edit_line(fn):
    """apply() for operators that rewrite one line in place: fn(p, line_text, site)."""
    def apply(p, site):
        lines = _lines(p)
        ln = site[0]
        lines[ln - 1] = fn(p, lines[ln - 1], site)
        return _join(lines), ln
    return apply


# ------------------------------------------------------- 1-3 trailing blanks

def _code_line_sites(p, stmt_kinds, item_kinds):
    out = [(s["line"], s["kind"]) for s in p.statements if s["kind"] in stmt_kinds]
    out += _item_lines(p, item_kinds)
    for f in p.functions:
        out.append((f["first_line"], "func_head"))
        out.append((f["open_brace_line"], "func_lbrace"))
        out.append((f["close_brace_line"], "func_rbrace"))
    return sorted(out)


@_op("V01_trailing_space", "SPC_BEFORE_NL", "append a space to a code line")
def _():
    # not reported after a preprocessor directive: see INCONSISTENT
    return (lambda p: _code_line_sites(
        p, SIMPLE + CONTROL + ("decl", "lbrace", "rbrace"), ("global", "proto")),
        _edit_line(lambda p, l, s: l + " "))


@_op("V02_trailing_tab", ("SPC_BEFORE_NL", "TAB_INSTEAD_SPC"),
     "append a tab to a code line")
def _():
    # not reported after a declaration, prototype or directive: see INCONSISTENT
    return (lambda p: _code_line_sites(p, SIMPLE + CONTROL + ("lbrace", "rbrace"), ()),
            _edit_line(lambda p, l, s: l + "\t"))


@_op("V03_space_on_empty_line", "SPACE_EMPTY_LINE", "a space on an empty line")
def _():
    def sites(p):
        out = [(it["first_line"], "top") for it in p.items if it["kind"] == "empty"]
        out += [(s["line"], "after_decls") for s in p.statements if s["kind"] == "empty"]
        return sorted(out)
    return sites, _edit_line(lambda p, l, s: " ")


# ------------------------------------------------------------ 4-6 indentation

def _indented_sites(kinds):
    def sites(p):
        return [(s["line"], s["kind"]) for s in p.statements
                if s["kind"] in kinds and s["depth"] >= 1]
    return sites


@_op("V04_spaces_for_tabs", "SPACE_REPLACE_TAB",
     "leading tabs of a statement replaced by 4 spaces each", kinds=("c",))
def _():
    def edit(p, l, s):
        n = len(l) - len(l.lstrip("\t"))
        return " " * (4 * n) + l[n:]
    # `else` and brace lines get TOO_FEW_TAB + SPACE_EMPTY_LINE instead
    return _indented_sites(SIMPLE + ("if", "else if", "while")), _edit_line(edit)


@_op("V05_one_tab_more", "TOO_MANY_TAB", "one leading tab more", kinds=("c",))
def _():
    return (_indented_sites(SIMPLE + CONTROL + ("lbrace", "rbrace")),
            _edit_line(lambda p, l, s: "\t" + l))


@_op("V06_one_tab_less", "TOO_FEW_TAB", "one leading tab less", kinds=("c",))
def _():
    return (_indented_sites(SIMPLE + CONTROL + ("lbrace", "rbrace")),
            _edit_line(lambda p, l, s: l[1:]))


# ------------------------------------------------------------ 7-9 blanks inside

_SPACE = re.compile(r" ")


def _space_sites(p):
    out = []
    lines = _lines(p)
    for s in p.statements:
        if s["kind"] in SIMPLE + ("if", "else if", "while"):
            for m in _code_find(lines[s["line"] - 1], _SPACE):
                out.append((s["line"], m.start(), s["kind"]))
    return out


def _replace_at(new):
    def edit(p, l, site):
        return l[:site[1]] + new + l[site[1] + 1:]
    return _edit_line(edit)


@_op("V07_double_space", "CONSECUTIVE_SPC", "a space of a statement doubled",
     kinds=("c",))
def _():
    return _space_sites, _replace_at("  ")


@_op("V08_tab_for_space", "TAB_INSTEAD_SPC", "a space of a statement -> tab",
     kinds=("c",))
def _():
    return _space_sites, _replace_at("\t")


@_op("V09_space_then_tab", "MIXED_SPACE_TAB", "a space of a statement -> space+tab",
     kinds=("c",))
def _():
    return _space_sites, _replace_at(" \t")


# --------------------------------------------------------- 10-13 empty lines

def _room_in_body(f, extra=1):
    return f["body_lines"] + extra <= MAX_BODY


@_op("V10_empty_line_in_body", "EMPTY_LINE_FUNCTION",
     "an empty line between two lines of a function body", kinds=("c",))
def _():
    def sites(p):
        out = []
        for f in p.functions:
            if not _room_in_body(f):
                continue
            body = _func_body(p, f)
            lines = _lines(p)
            for prev, s in zip(body, body[1:]):
                if prev["kind"] not in ("decl", "empty") and s["kind"] != "empty":
                    # not before the lone `;` of an empty-bodied while: see INCONSISTENT
                    if lines[s["line"] - 1].strip() == ";":
                        continue
                    out.append((s["line"], s["kind"]))
        return out

    def apply(p, site):
        lines = _lines(p)
        lines.insert(site[0] - 1, "")
        return _join(lines), site[0]
    return sites, apply


@_op("V11_two_empty_lines", "CONSECUTIVE_NEWLINES",
     "a top-level empty line duplicated")
def _():
    def sites(p):
        return [(it["first_line"], "top") for it in p.items if it["kind"] == "empty"]

    def apply(p, site):
        lines = _lines(p)
        lines.insert(site[0] - 1, "")
        return _join(lines), site[0] + 1
    return sites, apply


@_op("V12_empty_first_line", "EMPTY_LINE_FILE_START",
     "an empty line before everything (with a 42 header this is also M3: "
     "INVALID_HEADER is reported too)")
def _():
    return (lambda p: [(1, "file_start")]), (lambda p, s: ("\n" + p.text, 1))


@_op("V13_empty_last_line", "EMPTY_LINE_EOF", "an empty line at the end")
def _():
    def apply(p, site):
        return p.text + "\n", p.text.count("\n") + 1
    return (lambda p: [(p.text.count("\n"), "file_end")]), apply


# ------------------------------------------------- 14-16 missing empty lines

def _delete_line(p, site):
    lines = _lines(p)
    assert lines[site[0] - 1] == ""
    del lines[site[0] - 1]
    return _join(lines), site[0]


@_op("V14_no_empty_before_func", "NEWLINE_PRECEDES_FUNC",
     "the empty line before a function removed", kinds=("c",))
def _():
    def sites(p):
        out = []
        for a, b, c in zip(p.items, p.items[1:], p.items[2:]):
            if b["kind"] == "empty" and c["kind"] == "func" and a["kind"] in (
                    "func", "global", "proto"):
                out.append((b["first_line"], "after_" + a["kind"]))
        return out
    return sites, _delete_line


@_op("V15_no_empty_after_decls", "NL_AFTER_VAR_DECL",
     "the empty line after the declarations removed", kinds=("c",))
def _():
    def sites(p):
        at = _stmt_at(p)
        return [(s["line"], at[s["line"] + 1]["kind"]) for s in p.statements
                if s["kind"] == "empty"]
    return sites, _delete_line


@_op("V16_no_empty_after_preproc", "NL_AFTER_PREPROC",
     "the empty line after a preprocessor block removed")
def _():
    def sites(p):
        out = []
        for a, b, c in zip(p.items, p.items[1:], p.items[2:]):
            if (a["kind"] in ("include", "define", "guard_open")
                    and b["kind"] == "empty"
                    and c["kind"] in ("func", "global", "proto", "typedef")):
                out.append((b["first_line"], a["kind"] + ">" + c["kind"]))
        return out
    return sites, _delete_line


# ------------------------------------------------------ 17-24 declarations

@_op("V17_decl_after_statement", "VAR_DECL_START_FUNC",
     "a declaration after the first statement", kinds=("c",))
def _():
    def sites(p):
        out = []
        for f in p.functions:
            if f["nvars"] > 4 or not _room_in_body(f):
                continue
            body = [s for s in _func_body(p, f) if s["kind"] not in ("decl", "empty")]
            if body and body[0]["kind"] in SIMPLE and len(body) > 1:
                out.append((body[0]["line"], body[0]["kind"]))
        return out

    def apply(p, site):
        lines = _lines(p)
        f = _func_of(p, site[0])
        lines.insert(site[0], _decl_like(p, f, _fresh(p)))
        return _join(lines), site[0] + 1
    return sites, apply


def _plain_decl_sites(p):
    lines = _lines(p)
    return [(s["line"], "decl") for s in p.statements if s["kind"] == "decl"
            and "static" not in lines[s["line"] - 1]
            and "[" not in lines[s["line"] - 1]]


@_op("V18_decl_with_init", "DECL_ASSIGN_LINE", "`int a = 0;`", kinds=("c",))
def _():
    return _plain_decl_sites, _edit_line(lambda p, l, s: l[:-1] + " = 0;")


@_op("V19_two_decls_one_line", "MULT_DECL_LINE", "`int a, b;`", kinds=("c",))
def _():
    def sites(p):
        out = []
        for line, cls in _plain_decl_sites(p):
            if _func_of(p, line)["nvars"] < 5:
                out.append((line, cls))
        return out
    return sites, _edit_line(lambda p, l, s: l[:-1] + ", " + _fresh(p) + ";")


@_op("V20_decl_in_block", "WRONG_SCOPE_VAR",
     "a declaration as first line of a nested block", kinds=("c",))
def _():
    def sites(p):
        return [(s["line"], "lbrace") for s in p.statements if s["kind"] == "lbrace"
                and _room_in_body(_func_of(p, s["line"]))
                and _func_of(p, s["line"])["nvars"] < 5]

    def apply(p, site):
        lines = _lines(p)
        depth = _stmt_at(p)[site[0]]["depth"]
        lines.insert(site[0], "\t" * (depth + 1) + "int\t%s;" % _fresh(p))
        return _join(lines), site[0] + 1
    return sites, apply


@_op("V21_space_before_var_name", "SPACE_REPLACE_TAB",
     "a space instead of the tabs between type and variable name", kinds=("c",))
def _():
    def edit(p, l, s):
        prefix, tabs, stars, name, rest = _decl_parts(l)
        return prefix + " " + stars + name + rest
    return (lambda p: [(s["line"], "decl") for s in _stmts(p, ("decl",))]), _edit_line(edit)


@_op("V22_misaligned_decl", "MISALIGNED_VAR_DECL",
     "a declaration other than the first of its function one tab further",
     kinds=("c",))
def _():
    def sites(p):
        out = []
        for f in p.functions:
            out += [(s["line"], "decl") for s in _func_decls(p, f)[1:]]
        return out

    def edit(p, l, s):
        prefix, tabs, stars, name, rest = _decl_parts(l)
        return prefix + tabs + "\t" + stars + name + rest
    return sites, _edit_line(edit)


@_op("V23_sixth_decl", "TOO_MANY_VARS_FUNC",
     "declarations added after the last one until there are six", kinds=("c",))
def _():
    def sites(p):
        return [(_func_decls(p, f)[-1]["line"], "nvars=%d" % f["nvars"])
                for f in p.functions
                if f["nvars"] >= 1 and _room_in_body(f, 6 - f["nvars"])]

    def apply(p, site):
        lines = _lines(p)
        f = _func_of(p, site[0])
        add = 6 - f["nvars"]
        base = _fresh(p)
        for k in range(add):
            lines.insert(site[0] + k, _decl_like(p, f, "%s%d" % (base, k)))
        return _join(lines), site[0] + add
    return sites, apply


@_op("V24_vla", "VLA_FORBIDDEN", "`int t[n];`", kinds=("c",))
def _():
    return _plain_decl_sites, _edit_line(
        lambda p, l, s: l[:-1] + "[" + _fresh(p, "n") + "];")


# ------------------------------------------------- 25-30 function headers

def _head_sites(p, want):
    """(line, class) of function definitions / prototypes satisfying want(text)."""
    lines = _lines(p)
    out = [(f["first_line"], "func") for f in p.functions]
    out += [(l, "proto") for l, _ in _item_lines(p, ("proto",))]
    return sorted(s for s in out if want(lines[s[0] - 1]))


def _params_of(text):
    """(start, end, [param texts]) of the parameter list of a header line."""
    start = text.index("(") + 1
    end = text.rindex(")")
    return start, end, text[start:end].split(", ")


@_op("V25_no_void", "NO_ARGS_VOID", "`()` instead of `(void)`")
def _():
    return (lambda p: _head_sites(p, lambda t: "(void)" in t),
            _edit_line(lambda p, l, s: l.replace("(void)", "()")))


@_op("V26_unnamed_param", "MISSING_IDENTIFIER", "a parameter without a name")
def _():
    def sites(p):
        lines = _lines(p)
        out = []
        for line, cls in _head_sites(p, lambda t: "(void)" not in t):
            params = _params_of(lines[line - 1])[2]
            utype = r"^(const )?(size_t|t_\w+) "
            for k, param in enumerate(params):
                # `f(size_t, size_t b)`: an unnamed typedef-name parameter in
                # front of another typedef-name type is not seen: INCONSISTENT
                if (re.match(utype + r"\w+$", param) and k + 1 < len(params)
                        and re.match(utype, params[k + 1])):
                    continue
                out.append((line, k, cls))
        return out

    def edit(p, l, s):
        start, end, params = _params_of(l)
        params[s[1]] = re.sub(r" ?\w+$", "", params[s[1]])
        return l[:start] + ", ".join(params) + l[end:]
    return sites, _edit_line(edit)


@_op("V27_fifth_param", "TOO_MANY_ARGS", "parameters added until there are five")
def _():
    def mutated(p, l):
        start, end, params = _params_of(l)
        if params == ["void"]:
            params = []
        base = _fresh(p)
        params += ["int %s%d" % (base, k) for k in range(5 - len(params))]
        return l[:start] + ", ".join(params) + l[end:]

    def sites(p):
        lines = _lines(p)
        return [s for s in _head_sites(p, lambda t: True)
                if width(mutated(p, lines[s[0] - 1])) <= MAX_COLS]
    return sites, _edit_line(lambda p, l, s: mutated(p, l))


def _func_head_sites(p):
    return [(f["first_line"], "func") for f in p.functions]


@_op("V28_space_before_func_name", "SPACE_BEFORE_FUNC",
     "a space instead of the tab before a function name", kinds=("c",))
def _():
    return _func_head_sites, _edit_line(lambda p, l, s: l.replace("\t", " ", 1))


@_op("V29_two_tabs_before_func_name", "TOO_MANY_TABS_FUNC",
     "two tabs before the name of a function definition", kinds=("c",))
def _():
    return _func_head_sites, _edit_line(lambda p, l, s: l.replace("\t", "\t\t", 1))


@_op("V30_misaligned_proto", "MISALIGNED_FUNC_DECL",
     "a prototype other than the first one tab further")
def _():
    def sites(p):
        lines = _lines(p)
        protos = _item_lines(p, ("proto",))[1:]
        return [(l, "proto") for l, _ in protos
                if width(lines[l - 1].replace("\t", "\t\t", 1)) <= MAX_COLS]
    return sites, _edit_line(lambda p, l, s: l.replace("\t", "\t\t", 1))


# --------------------------------------------------------------- 31-32 braces

@_op("V31_brace_on_header_line", "BRACE_NEWLINE",
     "the opening brace of a function on the header line", kinds=("c",))
def _():
    def apply(p, site):
        lines = _lines(p)
        lines[site[0] - 1] += " {"
        del lines[site[0]]
        return _join(lines), site[0]
    return _func_head_sites, apply


@_op("V32_code_after_brace", "BRACE_SHOULD_EOL",
     "the statement following a brace moved onto the brace line", kinds=("c",))
def _():
    def sites(p):
        at = _stmt_at(p)
        out = []
        for s in p.statements:
            nxt = at.get(s["line"] + 1)
            if s["kind"] in ("lbrace", "rbrace") and nxt and nxt["kind"] in SIMPLE:
                out.append((s["line"], s["kind"]))
        for f in p.functions:
            nxt = at.get(f["open_brace_line"] + 1)
            if nxt and nxt["kind"] in SIMPLE:
                out.append((f["open_brace_line"], "func_lbrace"))
        return sorted(out)

    def apply(p, site):
        lines = _lines(p)
        lines[site[0] - 1] += " " + lines[site[0]].lstrip("\t")
        del lines[site[0]]
        return _join(lines), site[0]
    return sites, apply


# ------------------------------------------------------------- 33-36 limits

@_op("V33_26_line_body", "TOO_MANY_LINES",
     "call statements appended until the body has 26 lines; the report is on "
     "the closing brace", kinds=("c",))
def _():
    def apply(p, site):
        lines = _lines(p)
        f = p.functions[site[0]]
        add = MAX_BODY + 1 - f["body_lines"]
        name = _fresh(p)
        at = f["close_brace_line"] - 1
        for _ in range(add):
            lines.insert(at, "\t%s();" % name)
        return _join(lines), f["open_brace_line"] + MAX_BODY + 2
    return (lambda p: [(i, "body=%d" % f["body_lines"])
                       for i, f in enumerate(p.functions)]), apply


@_op("V34_sixth_function", "TOO_MANY_FUNCS",
     "functions appended until there are six; the report is on the sixth",
     kinds=("c",))
def _():
    def apply(p, site):
        text = p.text
        base = _fresh(p)
        line = None
        for k in range(6 - len(p.functions)):
            line = text.count("\n") + 2
            text += "\nvoid\t%s%d(void)\n{\n\treturn ;\n}\n" % (base, k)
        return text, line
    return (lambda p: [(0, "nfuncs=%d" % len(p.functions))]), apply


def _not_reserved(name):
    """`name`, or a variant of it when it is a C keyword / special name."""
    return "v" + name if name in KEYWORDS or name in SPECIAL else name


def _upper_first(name):
    for i, ch in enumerate(name):
        if ch.isalpha():
            return name[:i] + ch.upper() + name[i + 1:]
    return name


@_op("V35a_uppercase_func_name", "FORBIDDEN_CHAR_NAME",
     "an upper-case letter in the name of a function definition", kinds=("c",))
def _():
    def edit(p, l, s):
        f = [f for f in p.functions if f["first_line"] == s[0]][0]
        return l.replace(f["name"] + "(", _upper_first(f["name"]) + "(", 1)
    return _func_head_sites, _edit_line(edit)


@_op("V35b_uppercase_var_name", "FORBIDDEN_CHAR_NAME",
     "an upper-case letter in the name of a local variable (declaration only)",
     kinds=("c",))
def _():
    def edit(p, l, s):
        prefix, tabs, stars, name, rest = _decl_parts(l)
        return prefix + tabs + stars + _upper_first(name) + rest
    return (lambda p: [(s["line"], "decl") for s in _stmts(p, ("decl",))]), _edit_line(edit)


@_op("V36_global_without_prefix", "GLOBAL_VAR_NAMING",
     "a global variable without g_ (declaration only)", kinds=("c",))
def _():
    return (lambda p: _item_lines(p, ("global",)),
            _edit_line(lambda p, l, s: re.sub(
                r"\b(?:g_)+(\w+)", lambda m: _not_reserved(m.group(1)), l, count=1)))


# ------------------------------------------ 37-41 forbidden control structures

def _insert_stmt_sites(p):
    """First non-declaration statement of every function with room for a line."""
    out = []
    for f in p.functions:
        if not _room_in_body(f):
            continue
        body = [s for s in _func_body(p, f) if s["kind"] not in ("decl", "empty")]
        out.append((body[0]["line"], body[0]["kind"]))
    return out


def _insert_before(make):
    def apply(p, site):
        lines = _lines(p)
        lines.insert(site[0] - 1, make(p))
        return _join(lines), site[0]
    return apply


@_op("V37_for", "FORBIDDEN_CS", "`while (e)` rewritten as `for (; e;)`",
     kinds=("c",))
def _():
    def edit(p, l, s):
        m = re.match(r"^(\t+)while \((.*)\)$", l)
        return "%sfor (; %s;)" % (m.group(1), m.group(2))

    def sites(p):
        lines = _lines(p)
        return [(s["line"], "while") for s in _stmts(p, ("while",))
                if width(lines[s["line"] - 1]) + 1 <= MAX_COLS]
    return sites, _edit_line(edit)


@_op("V38_switch", "FORBIDDEN_CS",
     "a lone `if (e)` with a braced block rewritten as `switch (e)`", kinds=("c",))
def _():
    def sites(p):
        at = _stmt_at(p)
        lines = _lines(p)
        out = []
        for s in _stmts(p, ("if",)):
            nxt = at.get(s["line"] + 1)
            if not (nxt and nxt["kind"] == "lbrace"):
                continue
            # find the matching rbrace, then make sure no else follows
            ln = s["line"] + 2
            while not (at[ln]["kind"] == "rbrace" and at[ln]["depth"] == s["depth"]):
                ln += 1
            after = at.get(ln + 1)
            if after and after["kind"] in ("else", "else if"):
                continue
            if width(lines[s["line"] - 1]) + 4 <= MAX_COLS:
                out.append((s["line"], "if"))
        return out
    return sites, _edit_line(lambda p, l, s: l.replace("if (", "switch (", 1))


@_op("V39_goto", "GOTO_FBIDDEN", "a `goto` statement inserted", kinds=("c",))
def _():
    return _insert_stmt_sites, _insert_before(lambda p: "\tgoto %s;" % _fresh(p))


@_op("V40_label", "LABEL_FBIDDEN", "a label line inserted", kinds=("c",))
def _():
    return _insert_stmt_sites, _insert_before(lambda p: "\t%s:" % _fresh(p))


@_op("V41_ternary", "TERNARY_FBIDDEN", "`lv = e;` -> `lv = e ? 1 : 0;`",
     kinds=("c",))
def _():
    def sites(p):
        lines = _lines(p)
        return [(s["line"], "assign") for s in _stmts(p, ("assign",))
                if width(lines[s["line"] - 1]) + 8 <= MAX_COLS]
    return sites, _edit_line(lambda p, l, s: l[:-1] + " ? 1 : 0;")


# ------------------------------------------------------- 42-48 statements

@_op("V42_assign_in_control", "ASSIGN_IN_CONTROL", "`if ((v = e))`", kinds=("c",))
def _():
    def mutated(p, l):
        m = re.match(r"^(\t+(?:else if|if|while) \()(.*)\)$", l)
        return "%s(%s = %s))" % (m.group(1), _fresh(p), m.group(2))

    def sites(p):
        lines = _lines(p)
        return [(s["line"], s["kind"]) for s in _stmts(p, ("if", "else if", "while"))
                if width(mutated(p, lines[s["line"] - 1])) <= MAX_COLS]
    return sites, _edit_line(lambda p, l, s: mutated(p, l))


@_op("V43_body_on_control_line", "EXP_NEWLINE", "`if (x) y = 1;`", kinds=("c",))
def _():
    def sites(p):
        at = _stmt_at(p)
        lines = _lines(p)
        out = []
        for s in _stmts(p, ("if", "else if", "while")):
            nxt = at.get(s["line"] + 1)
            if nxt and nxt["kind"] in SIMPLE and nxt["depth"] == s["depth"] + 1:
                joined = lines[s["line"] - 1] + " " + lines[s["line"]].lstrip("\t")
                if width(joined) <= MAX_COLS:
                    out.append((s["line"], s["kind"]))
        return out

    def apply(p, site):
        lines = _lines(p)
        lines[site[0] - 1] += " " + lines[site[0]].lstrip("\t")
        del lines[site[0]]
        return _join(lines), site[0]
    return sites, apply


@_op("V43b_body_on_else_line", "EXP_NEWLINE", "`else y = 1;`", kinds=("c",))
def _():
    def sites(p):
        at = _stmt_at(p)
        lines = _lines(p)
        out = []
        for s in _stmts(p, ("else",)):
            nxt = at.get(s["line"] + 1)
            if nxt and nxt["kind"] in SIMPLE and nxt["depth"] == s["depth"] + 1:
                joined = lines[s["line"] - 1] + " " + lines[s["line"]].lstrip("\t")
                if width(joined) <= MAX_COLS:
                    out.append((s["line"], s["kind"]))
        return out

    def apply(p, site):
        lines = _lines(p)
        lines[site[0] - 1] += " " + lines[site[0]].lstrip("\t")
        del lines[site[0]]
        return _join(lines), site[0]
    return sites, apply


@_op("V44_two_instructions", "TOO_MANY_INSTR", "`a = 1; b++;`", kinds=("c",))
def _():
    def sites(p):
        lines = _lines(p)
        return [(s["line"], s["kind"]) for s in _stmts(p, SIMPLE)
                if width(lines[s["line"] - 1]) + 6 + len(_fresh(p)) <= MAX_COLS]
    return sites, _edit_line(lambda p, l, s: l + " %s++;" % _fresh(p))


@_op("V45_return_without_parentheses", "RETURN_PARENTHESIS", "`return x;`",
     kinds=("c",))
def _():
    def sites(p):
        lines = _lines(p)
        out = []
        for s in _stmts(p, ("return",)):
            l = lines[s["line"] - 1].lstrip("\t")
            if not l.startswith("return ("):
                continue
            found = _final_group(l[8:-2])
            if found and found[0] == 0:
                continue        # `return ((e));` stays conforming without one pair
            out.append((s["line"], "return"))
        return out

    def edit(p, l, s):
        i = l.index("return (")
        return l[:i] + "return " + l[i + 8:-2] + ";"
    return sites, _edit_line(edit)


def _kw_glued(id, kw, kinds_):
    @_op(id, "SPACE_AFTER_KW", "`%s(` without the space" % kw, kinds=("c",))
    def _():
        def sites(p):
            lines = _lines(p)
            return [(s["line"], s["kind"]) for s in _stmts(p, kinds_)
                    if lines[s["line"] - 1].lstrip("\t").startswith(kw + " (")]
        return sites, _edit_line(lambda p, l, s: l.replace(kw + " (", kw + "(", 1))


_kw_glued("V46_return_glued", "return", ("return",))
_kw_glued("V47_if_glued", "if", ("if",))
_kw_glued("V48_while_glued", "while", ("while",))


@_op("V48b_break_glued", "SPACE_AFTER_KW", "`break;` / `continue;` / `return;`",
     kinds=("c",))
def _():
    def sites(p):
        lines = _lines(p)
        return [(s["line"], s["kind"]) for s in _stmts(p, ("break", "continue", "return"))
                if lines[s["line"] - 1].endswith(" ;")]
    return sites, _edit_line(lambda p, l, s: l[:-2] + ";")


# ---------------------------------------------------- 49-53 operator spacing

_NEVER_UNARY = ["<<=", ">>=", "+=", "-=", "*=", "/=", "%=", "&=", "|=", "^=",
                "<=", ">=", "==", "!=", "&&", "||", "<<", ">>", "/", "%", "<",
                ">", "|", "^", "="]
_MAYBE_UNARY = ["+", "-", "*", "&"]


def _bin_regex(ops):
    alt = "|".join(re.escape(o) for o in sorted(ops, key=len, reverse=True))
    return re.compile(r"(?<= )(?:%s)(?= )" % alt)


_BIN_SAFE = _bin_regex(_NEVER_UNARY)
_BIN_ALL = _bin_regex(_NEVER_UNARY + _MAYBE_UNARY)


def _bin_sites(regex, keep):
    """Binary / assignment operators `a OP b` of statements; keep(line, m)."""
    def sites(p):
        lines = _lines(p)
        out = []
        for s in _stmts(p, SIMPLE + ("if", "else if", "while")):
            l = lines[s["line"] - 1]
            for m in _code_find(l, regex):
                if keep(l, m):
                    out.append((s["line"], m.start(), m.end(), m.group(0)))
        return out
    return sites


def _left_is_plain(l, m):
    """The left operand neither ends with a string literal nor with a group
    that the tool takes for a cast (`(sizeof(t_x *) > 1)>> a` is reported as
    SPC_AFTER_PAR or not at all): INCONSISTENT."""
    left = l[:m.start() - 1].lstrip("\t")
    if m.group(0) in "+-":
        if left.endswith(")"):
            return False    # `(a)- b`, `f(a) +b`, `(-a)+ b`: no report at all
        word = re.search(r"[\w.]+$", left)
        if word and re.match(r"^[0-9.].*[eEpP]", word.group(0)):
            return False    # `0x1eu+ a`: the lexer sees a bad exponent instead
    return not _star_misread_after(left)


def _right_is_word(l, m):
    """The right operand starts with an identifier (or, except after + and -,
    a digit or a quote).  Before `(` the tool says SPC_BFR_PAR instead; before
    `! ~ - * &`, a constant after +/-, `.5` ... it says nothing: INCONSISTENT."""
    if not _left_is_plain(l, m):
        return False
    ch = l[m.end() + 1]
    if m.group(0) in "+-":
        return ch.isalpha() or ch == "_"
    return ch.isalnum() or ch in "_\"'"


@_op("V49_no_space_before_operator", "SPC_BFR_OPERATOR", "`a+ b`", kinds=("c",))
def _():
    return (_bin_sites(_BIN_ALL, _left_is_plain),
            _edit_line(lambda p, l, s: l[:s[1] - 1] + l[s[1]:]))


@_op("V50_no_space_after_operator", "SPC_AFTER_OPERATOR", "`a +b`", kinds=("c",))
def _():
    return (_bin_sites(_BIN_ALL, _right_is_word),
            _edit_line(lambda p, l, s: l[:s[2]] + l[s[2] + 1:]))


_COMMA = re.compile(r", ")


def _comma_sites(p):
    lines = _lines(p)
    out = []
    for s in _stmts(p, SIMPLE + ("if", "else if", "while")):
        for m in _code_find(lines[s["line"] - 1], _COMMA):
            out.append((s["line"], m.start(), s["kind"]))
    return out


@_op("V51_space_before_comma", "NO_SPC_BFR_OPR", "`a , b`", kinds=("c",))
def _():
    return _comma_sites, _edit_line(lambda p, l, s: l[:s[1]] + " " + l[s[1]:])


@_op("V52_no_space_after_comma", "SPC_AFTER_OPERATOR", "`a,b`", kinds=("c",))
def _():
    def sites(p):
        # `a,-b` gives SPC_BFR_OPERATOR, `a,!b` nothing: INCONSISTENT
        lines = _lines(p)
        return [s for s in _comma_sites(p)
                if re.match(r"[\w\"'(]", lines[s[0] - 1][s[1] + 2])]
    return sites, _edit_line(lambda p, l, s: l[:s[1] + 1] + l[s[1] + 2:])


@_op("V53_double_assignment", "MULT_ASSIGN_LINE", "`a = b = c;`", kinds=("c",))
def _():
    assign = re.compile(r"(?<= )(?:<<=|>>=|[-+*/%&|^]?=)(?= )")

    def first(l):
        found = _code_find(l, assign)
        return found[0] if found else None

    def sites(p):
        lines = _lines(p)
        return [(s["line"], "assign") for s in _stmts(p, ("assign",))
                if first(lines[s["line"] - 1])
                and width(lines[s["line"] - 1]) + 3 + len(_fresh(p)) <= MAX_COLS]

    def edit(p, l, s):
        m = first(l)
        return l[:m.end()] + " %s =" % _fresh(p) + l[m.end():]
    return sites, _edit_line(edit)


# ------------------------------------------------ 55-57 parentheses, pointers

_LPAR = re.compile(r"\((?![()])")        # before `(` the code is SPC_AFTER_PAR
_TYPE_WORDS = ("int", "char", "long", "short", "void", "unsigned")
_RPAR = re.compile(r"(?<=[\w)\]])\)")     # after a literal / `*`: INCONSISTENT


def _paren_sites(regex):
    def sites(p):
        lines = _lines(p)
        out = []
        for s in _stmts(p, SIMPLE + ("if", "else if", "while")):
            l = lines[s["line"] - 1]
            if width(l) + 1 > MAX_COLS:
                continue
            for m in _code_find(l, regex):
                word = re.search(r"\w+$", l[:m.start()])
                if regex is _RPAR and word and word.group(0) in _TYPE_WORDS:
                    continue    # `(int )x`, `sizeof(int )` not reported
                out.append((s["line"], m.start(), s["kind"]))
        return out
    return sites


@_op("V55_space_after_lparen", "NO_SPC_AFR_PAR", "`( a`", kinds=("c",))
def _():
    return _paren_sites(_LPAR), _edit_line(
        lambda p, l, s: l[:s[1] + 1] + " " + l[s[1] + 1:])


@_op("V56_space_before_rparen", "NO_SPC_BFR_PAR", "`a )`", kinds=("c",))
def _():
    return _paren_sites(_RPAR), _edit_line(lambda p, l, s: l[:s[1]] + " " + l[s[1]:])


@_op("V57_space_after_star", "SPC_AFTER_POINTER", "`char * p`", kinds=("c",))
def _():
    def sites(p):
        lines = _lines(p)
        return [(s["line"], "decl") for s in _stmts(p, ("decl",))
                if _decl_parts(lines[s["line"] - 1])[2]]

    def edit(p, l, s):
        prefix, tabs, stars, name, rest = _decl_parts(l)
        return prefix + tabs + stars + " " + name + rest
    return sites, _edit_line(edit)


# ------------------------------------------------------------ 58-59 comments

@_op("V58_comment_in_function", "WRONG_SCOPE_COMMENT",
     "a comment line inside a function body", kinds=("c",))
def _():
    return _insert_stmt_sites, _insert_before(lambda p: "\t/* %s */" % _fresh(p))


@_op("V59_comment_in_instruction", "COMMENT_ON_INSTR",
     "a block comment after the name of a global / the last parameter of a prototype")
def _():
    def sites(p):
        lines = _lines(p)
        return [(l, k) for l, k in _item_lines(p, ("global", "proto"))
                if width(lines[l - 1]) + 6 <= MAX_COLS and "(void)" not in lines[l - 1]]

    def edit(p, l, s):
        if s[1] == "proto":
            i = l.rindex(")")
        else:
            i = l.index(" = ") if " = " in l else len(l) - 1
        return l[:i] + " /* */" + l[i:]
    return sites, _edit_line(edit)


# ------------------------------------------------------------- 60-62 defines

def _define_sites(p):
    return _item_lines(p, ("define",))


_DEFINE = re.compile(r"^(# ?define )(\w+)( .*)$")


@_op("V60_lowercase_macro", "MACRO_NAME_CAPITAL", "`#define low 1`")
def _():
    def edit(p, l, s):
        m = _DEFINE.match(l)
        return m.group(1) + _not_reserved(m.group(2).lower()) + m.group(3)

    def sites(p):
        lines = _lines(p)
        return [s for s in _define_sites(p)
                if re.search(r"[A-Z]", _DEFINE.match(lines[s[0] - 1]).group(2))]
    return sites, _edit_line(edit)


@_op("V61_function_macro", "MACRO_FUNC_FORBIDDEN", "`#define F(x) x`")
def _():
    def edit(p, l, s):
        m = _DEFINE.match(l)
        return m.group(1) + m.group(2) + "(x)" + m.group(3)
    return _define_sites, _edit_line(edit)


@_op("V62_expression_macro", "PREPROC_CONSTANT", "`#define X 1 + 1`")
def _():
    return _define_sites, _edit_line(lambda p, l, s: l + " + 1")


# ------------------------------------------------------------ 63-70 includes

def _include_sites(p):
    return _item_lines(p, ("include",))


@_op("V63_indented_directive_at_depth0", "TOO_MANY_WS",
     "`# include` outside any #if", kinds=("c",))
def _():
    return _include_sites, _edit_line(lambda p, l, s: "# " + l[1:])


@_op("V64_missing_directive_indent", "PREPROC_BAD_INDENT",
     "`#include` / `#define` without the space inside the guard", kinds=("h",))
def _():
    return (lambda p: _item_lines(p, ("include", "define")),
            _edit_line(lambda p, l, s: "#" + l[2:]))


@_op("V65_include_glued", "PREPROC_NO_SPACE", '`#include"x.h"`')
def _():
    return _include_sites, _edit_line(lambda p, l, s: l.replace("include ", "include", 1))


@_op("V66_include_two_spaces", "CONSECUTIVE_WS", '`#include  "x.h"`')
def _():
    return _include_sites, _edit_line(lambda p, l, s: l.replace("include ", "include  ", 1))


@_op("V67_include_c_file", "INCLUDE_HEADER_ONLY", "include of a .c file")
def _():
    return _include_sites, _edit_line(
        lambda p, l, s: l[:-3] + ".c" + l[-1])


@_op("V68_include_after_code", "INCLUDE_START_FILE",
     "an include (followed by an empty line) after the first function", kinds=("c",))
def _():
    def sites(p):
        return [(f["close_brace_line"], "after_func") for f in p.functions[:1]]

    def apply(p, site):
        lines = _lines(p)
        lines[site[0]:site[0]] = ["", "#include <%s.h>" % _fresh(p)]
        return _join(lines), site[0] + 2
    return sites, apply


@_op("V69_directive_in_function", "PREPOC_ONLY_GLOBAL",
     "a #define inside a function body", kinds=("c",))
def _():
    return _insert_stmt_sites, _insert_before(
        lambda p: "#define %s 1" % _fresh(p).upper())


@_op("V70_indented_hash", "PREPROC_START_LINE", "a tab before `#`")
def _():
    return (lambda p: _item_lines(p, ("include", "define")),
            _edit_line(lambda p, l, s: "\t" + l))


# -------------------------------------------------- 71-73 unbalanced #if

def _after_preamble(p):
    """Line before which a top-level directive can be inserted: the first
    func / global / proto / typedef item (preceded by an empty line)."""
    for prev, it in zip(p.items, p.items[1:]):
        if it["kind"] in ("func", "global", "proto", "typedef") and prev["kind"] == "empty":
            return [(it["first_line"], it["kind"])]
    return []


def _insert_directive(text_of):
    def apply(p, site):
        lines = _lines(p)
        lines[site[0] - 1:site[0] - 1] = [text_of(p), ""]
        return _join(lines), site[0]
    return apply


@_op("V71_stray_else", "PREPROC_BAD_ELSE", "`#else` without #if", kinds=("c",))
def _():
    return _after_preamble, _insert_directive(lambda p: "#else")


@_op("V72_stray_endif", "PREPROC_BAD_ENDIF", "`#endif` without #if", kinds=("c",))
def _():
    return _after_preamble, _insert_directive(lambda p: "#endif")


@_op("V73_if_without_endif", "PREPROC_BAD_IF", "`#if 1` without #endif",
     kinds=("c",))
def _():
    return _after_preamble, _insert_directive(lambda p: "#if 1")


# ---------------------------------------- 74-77 user types in a .c file

def _first_func_site(p):
    for prev, it in zip(p.items, p.items[1:]):
        if it["kind"] == "func" and prev["kind"] == "empty":
            return [(it["first_line"], "before_func")]
    return []


def _insert_block(make):
    def apply(p, site):
        lines = _lines(p)
        block = make(p)
        lines[site[0] - 1:site[0] - 1] = block + [""]
        return _join(lines), site[0]
    return apply


def _utype_block(kw, prefix):
    def make(p):
        name = _fresh(p, prefix + "zz")
        if kw == "enum":
            return ["enum %s" % name, "{", "\t%s," % _fresh(p).upper(), "};"]
        return ["%s %s" % (kw, name), "{", "\tint\t%s;" % _fresh(p), "};"]
    return make


for _kw, _pre, _n in (("struct", "s_", 74), ("union", "u_", 75), ("enum", "e_", 76)):
    @_op("V%d_%s_in_c_file" % (_n, _kw), "FORBIDDEN_" + _kw.upper(),
         "a %s definition in a .c file" % _kw, kinds=("c",))
    def _(_kw=_kw, _pre=_pre):
        return _first_func_site, _insert_block(_utype_block(_kw, _pre))


@_op("V77_typedef_in_c_file", "FORBIDDEN_TYPEDEF", "a typedef in a .c file",
     kinds=("c",))
def _():
    def sites(p):
        if any(it["kind"] == "global" for it in p.items):
            return []       # the typedef name would have to share their column
        return _first_func_site(p)
    return sites, _insert_block(lambda p: ["typedef int\t%s;" % _fresh(p, "t_zz")])


# ----------------------------------------- 78-81 user type names (.h)

def _before_endif(p):
    for prev, it in zip(p.items, p.items[1:]):
        if it["kind"] == "guard_close" and prev["kind"] == "empty":
            return [(it["first_line"], "before_endif")]
    return []


def _bad_tag_block(kw):
    def make(p):
        name = _fresh(p)
        if kw == "enum":
            return ["enum %s" % name, "{", "\t%s," % _fresh(p).upper(), "};"]
        return ["%s %s" % (kw, name), "{", "\tint\t%s;" % _fresh(p, "yy"), "};"]
    return make


# The catalogue row edits the tag of the generated `typedef struct s_x {...} t_x;`
# blocks; the tool never checks the tag of a typedef'd type (INCONSISTENT), so
# the operators insert a plain definition with a bad tag instead.
for _kw, _n, _code in (("struct", 78, "STRUCT_TYPE_NAMING"),
                       ("union", 79, "UNION_TYPE_NAMING"),
                       ("enum", 80, "ENUM_TYPE_NAMING")):
    @_op("V%d_%s_tag_without_prefix" % (_n, _kw), _code,
         "a plain `%s x {...};` whose tag lacks its prefix, before #endif" % _kw,
         kinds=("h",))
    def _(_kw=_kw):
        return _before_endif, _insert_block(_bad_tag_block(_kw))


@_op("V81_typedef_without_prefix", "USER_DEFINED_TYPEDEF",
     "typedef name without t_", kinds=("h",))
def _():
    def sites(p):
        return [(it["last_line"], "typedef") for it in p.items if it["kind"] == "typedef"]
    return sites, _edit_line(lambda p, l, s: re.sub(
        r"\b(?:t_)+(\w+);$", lambda m: _not_reserved(m.group(1)) + ";", l))


# --------------------------------------------- 82-84 line length, header, guard

@_op("V82_81_columns", "LINE_TOO_LONG",
     "a call statement of exactly 81 columns inserted", kinds=("c",))
def _():
    return _insert_stmt_sites, _insert_before(
        lambda p: "\t" + _fresh(p).ljust(MAX_COLS + 1 - TAB - 3, "z") + "();")


@_op("V83_header_removed", "INVALID_HEADER", "the 42 header removed (M1)")
def _():
    def sites(p):
        return [(1, "header")] if p.body_start_line > 1 else []

    def apply(p, site):
        # The report is on the first statement that is not a block comment
        # (leading block comments are read as an attempt at a header).
        shift = p.body_start_line - 1
        line = 1
        for it in p.items:
            if it["kind"] == "empty" and it["first_line"] < p.body_start_line:
                continue
            if it["kind"] == "comment" and (it["first_line"], "block") in p.comments:
                line = it["last_line"] - shift + 1
                continue
            break
        return _join(_lines(p)[shift:]), line
    return sites, apply


def _aligned_proto(p):
    """`int <name>(void);` on the column shared by the prototypes of the file."""
    protos = _item_lines(p, ("proto",))
    tabs = "\t"
    if protos:
        col = width(re.match(r"^[^\t]*\t+", _lines(p)[protos[0][0] - 1]).group(0))
        tabs = "\t" * (col // TAB)
    return "int%s%s(void);" % (tabs, _fresh(p))


def _guard_line(p, which):
    for it in p.items:
        if it["kind"] == which:
            return it
    return None


@_op("V84a_guard_other_name", "HEADER_PROT_NAME", "G1: #ifndef of another symbol",
     kinds=("h",))
def _():
    def sites(p):
        return [(_guard_line(p, "guard_open")["first_line"], "ifndef")]
    return sites, _edit_line(lambda p, l, s: l[:-2] + "_X_H")


@_op("V84b_guard_lower_case", "HEADER_PROT_UPPER", "G2: guard symbol in lower case",
     kinds=("h",))
def _():
    def sites(p):
        return [(_guard_line(p, "guard_open")["first_line"], "ifndef")]
    return sites, _edit_line(lambda p, l, s: "#ifndef " + l[8:].lower())


@_op("V84c_guard_not_defined", "HEADER_PROT_NODEF",
     "G3: `# define G` defines another symbol; reported on #endif", kinds=("h",))
def _():
    def sites(p):
        return [(_guard_line(p, "guard_open")["last_line"], "define")]

    def apply(p, site):
        lines = _lines(p)
        lines[site[0] - 1] = lines[site[0] - 1][:-2] + "_X_H"
        return _join(lines), _guard_line(p, "guard_close")["first_line"]
    return sites, apply


@_op("V84d_second_guard", "HEADER_PROT_MULT",
     "G4: a second outermost #ifndef after the first one is closed", kinds=("h",))
def _():
    def apply(p, site):
        g = _lines(p)[_guard_line(p, "guard_open")["first_line"] - 1][8:]
        text = p.text + "#ifndef %s\n#endif\n" % g
        return text, p.text.count("\n") + 1
    return (lambda p: [(0, "eof")]), apply


@_op("V84e_code_before_guard", "HEADER_PROT_ALL",
     "G5: a prototype (and an empty line) before #ifndef", kinds=("h",))
def _():
    def apply(p, site):
        lines = _lines(p)
        ln = _guard_line(p, "guard_open")["first_line"]
        lines[ln - 1:ln - 1] = [_aligned_proto(p), ""]
        return _join(lines), ln + 2
    return (lambda p: [(0, "before_guard")]), apply


@_op("V84f_code_after_guard", "HEADER_PROT_ALL_AF",
     "G6: a prototype after the final #endif", kinds=("h",))
def _():
    def apply(p, site):
        text = p.text + "\n" + _aligned_proto(p) + "\n"
        return text, p.text.count("\n") + 2
    return (lambda p: [(0, "eof")]), apply


# ------------------------------------------------------------------ registry

# (id, reason) of catalogue rows dropped because the tool never emits the code.
# Every row of the v1 table fires on some class of sites, so nothing is dropped;
# the row "space before `;`" was already removed from the table in the design
# round (`return ;` is the Norm's own spelling) and row 54 does not exist.
NOT_ENFORCED = []

# (id, example text, expected (code, line), got [(code, line), ...]): the edit
# of the catalogue row `id` applied at a site of the class the row names, where
# the tool does not report the code (Error-level diagnostics only in `got`).
# `sites()` of the operator excludes these classes.  Entries whose `got` is
# empty are violations the tool accepts silently.
def _example(body, name="x.c"):
    from .header import header42
    return header42(name) + "\n" + body


_F = "int\tf(int a, int b)\n{\n%s}\n"
_H = "#ifndef X_H\n# define X_H\n\ntypedef %s x\n{\n\t%s\n}\tt_x;\n\n#endif\n"

INCONSISTENT = [
    # trailing blanks are not looked for after directives / declarations
    ("V01_trailing_space", _example("#define A 1 \n\n" + _F % "\treturn (a + b);\n"),
     ("SPC_BEFORE_NL", 13), []),
    ("V02_trailing_tab", _example(_F % "\tint\tc;\t\n\n\tc = a;\n\treturn (c + b);\n"),
     (("SPC_BEFORE_NL", "TAB_INSTEAD_SPC"), 15), []),
    ("V02_trailing_tab", _example("int\tg(int a);\t\n\n" + _F % "\treturn (a + b);\n"),
     (("SPC_BEFORE_NL", "TAB_INSTEAD_SPC"), 13), []),
    # reported, but under another name (not a missed violation)
    ("V04_spaces_for_tabs",
     _example(_F % "\tif (a)\n\t\treturn (a);\n    else\n\t\treturn (b);\n"),
     ("SPACE_REPLACE_TAB", 17), [("TOO_FEW_TAB", 17), ("SPACE_EMPTY_LINE", 17)]),
    ("V26_unnamed_param", _example("int\tg(size_t, size_t b);\n\n" + _F % "\treturn (a + b);\n"),
     ("MISSING_IDENTIFIER", 13), []),
    ("V49_no_space_before_operator", _example(_F % "\treturn (\"s\"& a);\n"),
     ("SPC_BFR_OPERATOR", 15), []),
    ("V49_no_space_before_operator", _example(_F % "\treturn ((a)- b);\n"),
     ("SPC_BFR_OPERATOR", 15), []),
    ("V49_no_space_before_operator", _example(_F % "\treturn (f(a)+ b);\n"),
     ("SPC_BFR_OPERATOR", 15), []),
    ("V50_no_space_after_operator", _example(_F % "\treturn (f(a) +b);\n"),
     ("SPC_AFTER_OPERATOR", 15), []),
    ("V50_no_space_after_operator", _example(_F % "\treturn ((-a) +b);\n"),
     ("SPC_AFTER_OPERATOR", 15), []),
    ("V50_no_space_after_operator", _example(_F % "\ta =!b;\n\treturn (a);\n"),
     ("SPC_AFTER_OPERATOR", 15), []),
    ("V50_no_space_after_operator", _example(_F % "\treturn (a <=!b);\n"),
     ("SPC_AFTER_OPERATOR", 15), []),
    ("V50_no_space_after_operator", _example(_F % "\treturn (a |(b));\n"),
     ("SPC_AFTER_OPERATOR", 15), []),
    ("V50_no_space_after_operator", _example(_F % "\treturn (a ^(int)b);\n"),
     ("SPC_AFTER_OPERATOR", 15), []),
    ("V50_no_space_after_operator", _example(_F % "\treturn (a *(int)b);\n"),
     ("SPC_AFTER_OPERATOR", 15), []),
    ("V50_no_space_after_operator", _example(_F % "\treturn (a +1);\n"),
     ("SPC_AFTER_OPERATOR", 15), []),
    ("V52_no_space_after_comma", _example(_F % "\treturn (f(a,!b));\n"),
     ("SPC_AFTER_OPERATOR", 15), []),
    ("V56_space_before_rparen", _example(_F % "\treturn (f(a, \"s\" ));\n"),
     ("NO_SPC_BFR_PAR", 15), []),
    ("V56_space_before_rparen", _example(_F % "\treturn (f(a, 'c' ));\n"),
     ("NO_SPC_BFR_PAR", 15), []),
    ("V56_space_before_rparen", _example(_F % "\treturn (a + sizeof(int ));\n"),
     ("NO_SPC_BFR_PAR", 15), []),
    ("V56_space_before_rparen", _example(_F % "\treturn ((int )a + b);\n"),
     ("NO_SPC_BFR_PAR", 15), []),
    # an empty line between `while (e)` and the lone `;` that is its body belongs to the control statement
    ("V10_empty_line_in_body", _example(_F % "\twhile (a)\n\n\t\t;\n\treturn (a + b);\n"),
     ("EMPTY_LINE_FUNCTION", 16), []),
    # the tag of a typedef'd struct / union / enum is never checked
    ("V78_struct_tag_without_prefix", _example(_H % ("struct", "int\ta;"), "x.h"),
     ("STRUCT_TYPE_NAMING", 16), []),
    ("V79_union_tag_without_prefix", _example(_H % ("union", "int\ta;"), "x.h"),
     ("UNION_TYPE_NAMING", 16), []),
    ("V80_enum_tag_without_prefix", _example(_H % ("enum", "AA,"), "x.h"),
     ("ENUM_TYPE_NAMING", 16), []),
]

_DROPPED = frozenset(i for i, _ in NOT_ENFORCED)
OPERATORS = [op for op in _CANDIDATES if op.id not in _DROPPED]
BY_ID = {op.id: op for op in OPERATORS}
