"""The 42 `stdheader` (DESIGN §4.13): template, random fields, mutations M6..M25.

Everything here is a pure function of its arguments (and of the `rng` passed
in); there is no module state.

Finding recorded while writing the mutations (see `M25_EXCEPTION_LOGIN`): the
tool's pattern `Created: ([^ ]* [^ ]*) by ([^ ]*)` still matches a header whose
date and time are glued when the login is literally ``by``
(`Created: <datetime> by by` -> groups `<datetime> by` / `by`).  `random_fields`
never draws that login so that "M25 yields INVALID_HEADER" holds for every
generated header.
"""

import string

WIDTH = 80
FRAME = "/* " + "*" * 74 + " */"
BLANK = "/*" + " " * 76 + "*/"

# (text left of the ASCII art is padded with spaces to this 0-based column, art)
_ART = {
    3: (58, ":::      ::::::::   */"),
    4: (56, ":+:      :+:    :+:   */"),
    5: (54, "+:+ +:+         +:+     */"),
    6: (52, "+#+  +:+       +#+        */"),
    7: (50, "+#+#+#+#+#+   +#+           */"),
    8: (55, "#+#    #+#             */"),
    9: (54, "###   ########.fr       */"),
}

MAX_FILE = 41    # width of the file-name field in the vim/emacs plugin
MAX_LOGIN = 9
MAX_BY = 42      # len(login) + len(" <") + len(mail) + len(">") must be <= 42

M25_EXCEPTION_LOGIN = "by"


def _art_line(n, left):
    col, art = _ART[n]
    if len(left) > col:
        raise ValueError("header field too wide for line %d: %r" % (n, left))
    line = left.ljust(col) + art
    assert len(line) == WIDTH, (n, len(line))
    return line


def header_lines(fname, login="marvin", mail="marvin@student.42.fr",
                 created="2024/01/01 10:00:00", updated="2024/01/02 11:00:00"):
    """The 11 lines (without newlines) of the standard header."""
    return [
        FRAME,
        BLANK,
        _art_line(3, "/*"),
        _art_line(4, "/*   " + fname),
        _art_line(5, "/*"),
        _art_line(6, "/*   By: %s <%s>" % (login, mail)),
        _art_line(7, "/*"),
        _art_line(8, "/*   Created: %s by %s" % (created, login)),
        _art_line(9, "/*   Updated: %s by %s" % (updated, login)),
        BLANK,
        FRAME,
    ]


def header42(fname, login="marvin", mail="marvin@student.42.fr",
             created="2024/01/01 10:00:00", updated="2024/01/02 11:00:00"):
    """The standard 11-line 42 header; every line is 80 columns + a newline."""
    return "".join(l + "\n" for l in
                   header_lines(fname, login, mail, created, updated))


_LOGIN_FIRST = string.ascii_lowercase
_LOGIN_REST = string.ascii_lowercase + string.digits + "-"
_DOMAIN = string.ascii_lowercase + string.digits + ".-"


def _stamp(rng):
    d = lambda n: "".join(rng.choice(string.digits) for _ in range(n))
    return "%s/%s/%s %s:%s:%s" % (d(4), d(2), d(2), d(2), d(2), d(2))


def random_fields(rng):
    """Random well-formed header fields as keyword arguments of `header42`.

    login `[a-z][a-z0-9-]{0,8}` (never "by", see module docstring), mail
    `login@[a-z0-9.-]+` short enough for the By: line, free-digit time stamps.
    One time in eight the widest possible login/mail are drawn.
    """
    widest = rng.randrange(8) == 0
    while True:
        n = MAX_LOGIN if widest else rng.randint(1, MAX_LOGIN)
        login = rng.choice(_LOGIN_FIRST) + "".join(
            rng.choice(_LOGIN_REST) for _ in range(n - 1))
        if login != M25_EXCEPTION_LOGIN:
            break
    room = MAX_BY - len(login) - 3 - len(login) - 1   # chars left for the domain
    m = room if widest else rng.randint(1, min(room, 16))
    domain = "".join(rng.choice(_DOMAIN) for _ in range(m))
    return {
        "login": login,
        "mail": "%s@%s" % (login, domain),
        "created": _stamp(rng),
        "updated": _stamp(rng),
    }


# --------------------------------------------------------------------------
# mutations M6..M25 on the 11-line text


def _split(text):
    lines = text.split("\n")
    assert lines[-1] == "" and len(lines) == 12, "expected the 11-line header"
    return lines[:-1]


def _join(lines):
    return "".join(l + "\n" for l in lines)


def _remove_line(i):
    def mut(text):
        lines = _split(text)
        del lines[i - 1]
        return _join(lines)
    mut.__doc__ = "header line %d removed" % i
    return mut


def _stars(lineno, count):
    def mut(text):
        lines = _split(text)
        lines[lineno - 1] = "/* " + "*" * count + " */"
        return _join(lines)
    mut.__doc__ = "frame line %d with %d stars" % (lineno, count)
    return mut


def _no_space(lineno):
    def mut(text):
        lines = _split(text)
        assert lines[lineno - 1].startswith("/* *")
        lines[lineno - 1] = "/*" + lines[lineno - 1][3:]
        return _join(lines)
    mut.__doc__ = "frame line %d without the space after /*" % lineno
    return mut


def _blank_keyword(lineno, keyword):
    def mut(text):
        lines = _split(text)
        l = lines[lineno - 1]
        assert l.startswith("/*   " + keyword), l
        lines[lineno - 1] = "/*   " + " " * len(keyword) + l[5 + len(keyword):]
        return _join(lines)
    mut.__doc__ = "keyword %r replaced by spaces" % keyword
    return mut


def _remove_by(lineno):
    def mut(text):
        lines = _split(text)
        l = lines[lineno - 1]
        start = l.index(" by ")
        end = l.index(" ", start + 4)
        lines[lineno - 1] = l[:start] + " " * (end - start) + l[end:]
        return _join(lines)
    mut.__doc__ = "' by <login>' of line %d replaced by spaces" % lineno
    return mut


def _glue(lineno):
    def mut(text):
        lines = _split(text)
        l = lines[lineno - 1]
        # "/*   Created: " is 14 chars, the date 10 chars, then the space
        assert l[24] == " ", l
        by_end = l.index(" ", l.index(" by ") + 4)
        lines[lineno - 1] = l[:24] + l[25:by_end] + " " + l[by_end:]
        return _join(lines)
    mut.__doc__ = "date and time of line %d glued (width kept)" % lineno
    return mut


HEADER_MUTATIONS = {}
for _i in range(1, 12):
    HEADER_MUTATIONS["M%d" % (5 + _i)] = _remove_line(_i)
HEADER_MUTATIONS.update({
    "M17": _stars(1, 73),
    "M17b": _stars(11, 73),
    "M18": _stars(11, 75),
    "M18b": _stars(1, 75),
    "M19": _no_space(1),
    "M19b": _no_space(11),
    "M20": _blank_keyword(6, "By:"),
    "M21": _blank_keyword(8, "Created:"),
    "M22": _blank_keyword(9, "Updated:"),
    "M23": _remove_by(8),
    "M23b": _remove_by(9),
    "M25": _glue(8),
    "M25b": _glue(9),
})
del _i
