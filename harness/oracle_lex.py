"""Independent raw scanner: the C09 / C10 statements evaluated on the implementation's own
token stream, from the raw text alone (no use of the model)."""
from lexcorr import TRI, DI, visual_positions

_SPELL = None


def spellings():
    """token type -> standard spelling, from the dictionaries of the code under test."""
    global _SPELL
    if _SPELL is None:
        from norminette.lexer import dictionary as d
        sp = {}
        for tbl in (d.keywords, d.operators, d.brackets):
            for k, v in tbl.items():
                sp.setdefault(v, k)
        sp.update({"SPACE": " ", "TAB": "\t", "NEWLINE": "\n"})
        _SPELL = sp
    return _SPELL


def skip_splices(src, o):
    while True:
        if src.startswith("\\\n", o):
            o += 2
        elif src.startswith("??/\n", o):
            o += 4
        else:
            return o


def walk(src, o, text, vp, kind):
    """Consume `text` (normalised) from raw offset o. Returns (end offset, None) or (None, why).
    Inside strings, character constants and comments a line splice of the source may have been
    removed (the documented normalisation) or kept verbatim (e.g. after an escaped backslash);
    both reproduce the input, so both are accepted (small backtracking search)."""
    in_tok_splices = kind in ("STRING", "CHAR_CONST", "COMMENT", "MULT_COMMENT")
    n = len(text)
    why = ["no match"]
    stack = [(o, 0)]
    seen = set()
    while stack:
        o, i = stack.pop()
        if (o, i) in seen:
            continue
        seen.add((o, i))
        if i == n:
            return o, None
        if o >= len(src):
            why[0] = f"source exhausted at text index {i}"
            continue
        e = text[i]
        if kind == "MULT_COMMENT" and src[o] == "\t":
            spaces = 4 - (vp[o][1] - 1) % 4
            if text[i:i + spaces] == " " * spaces:
                stack.append((o + 1, i + spaces))
            else:
                why[0] = f"tab at offset {o} should expand to {spaces} spaces"
            continue
        tri = src[o:o + 3]
        di = src[o:o + 2]
        if tri in TRI:
            if TRI[tri] == e:
                stack.append((o + 3, i + 1))
            else:
                why[0] = f"offset {o}: trigraph {tri!r} gives {TRI[tri]!r}, token has {e!r}"
        elif di in DI:
            if DI[di] == e:
                stack.append((o + 2, i + 1))
            else:
                why[0] = f"offset {o}: digraph {di!r} gives {DI[di]!r}, token has {e!r}"
        elif src[o] == e:
            stack.append((o + 1, i + 1))
        else:
            why[0] = f"offset {o}: source has {src[o]!r}, token has {e!r}"
        # preferred option (pushed last, tried first): drop a splice, as the lexer normally does
        # (only inside multi-character tokens, not before the first character)
        if in_tok_splices and i > 0:
            o2 = skip_splices(src, o)
            if o2 != o:
                stack.append((o2, i))
    return None, why[0]


def check_stream(src, tokens, diags):
    """tokens: [type, line, col, value]; diags: [name, text, level, [[line, col, len, hint]..]].
    Returns a list of (property, class, problem) found.

    C10 is decided without looking at positions: tokens (in order) and reported bad lexemes (in
    order) must spell the source consecutively, with only line splices in between.  The walk
    yields the raw start offset of every token; C09 then compares each reported (line, col)
    with the visual position of that offset."""
    probs = []
    vp = visual_positions(src)
    sp = spellings()
    bads = [d for d in diags if d[0] == "BAD_LEXEME"]
    bi = 0
    cursor = 0
    starts = []

    def bad_char(d):
        t = d[1]
        pre, post = "No matchable token for '", "' lexeme"
        return t[len(pre):-len(post)] if t.startswith(pre) and t.endswith(post) else None

    def take_bads(cursor, bi, text, ty):
        """consume splices and reported bad lexemes until the token text matches"""
        while True:
            cursor = skip_splices(src, cursor)
            if text is not None:
                end, why = walk(src, cursor, text, vp, ty)
                if end is not None:
                    return cursor, bi, end, None
            else:
                why = "end of tokens"
            if bi < len(bads) and cursor < len(src) and bad_char(bads[bi]) == src[cursor]:
                hl = bads[bi][3][0] if bads[bi][3] else None
                if hl is not None and (hl[0], hl[1]) != vp[cursor]:
                    probs.append(("C09", "bad-lexeme-position", f"BAD_LEXEME for {src[cursor]!r} reported at ({hl[0]},{hl[1]}), the character is at {vp[cursor]}"))
                cursor += 1
                bi += 1
                continue
            return cursor, bi, None, why

    for k, (ty, line, col, value) in enumerate(tokens):
        text = value if value is not None else sp.get(ty)
        if text is None:
            probs.append(("C10", "no-spelling", f"token {k}: type {ty} has no spelling in the dictionaries"))
            return probs
        start, bi, end, why = take_bads(cursor, bi, text, ty)
        if end is None:
            probs.append(("C10", "content-differs", f"token {k} {ty} {text!r} does not spell the source at offset {start} ({src[start:start+12]!r}...): {why}"))
            return probs
        starts.append(start)
        if (line, col) != vp[start]:
            probs.append(("C09", "position", f"token {k} {ty} reported at ({line},{col}); its first character (offset {start}) is at {vp[start]}"))
        cursor = end
    cursor, bi, _, _ = take_bads(cursor, bi, None, None)
    if cursor != len(src):
        probs.append(("C10", "characters-dropped", f"characters {src[cursor:cursor+20]!r} at offset {cursor} are in no token and not reported as bad lexemes"))
    if bi != len(bads):
        probs.append(("C10", "phantom-bad-lexeme", f"{len(bads) - bi} BAD_LEXEME diagnostics do not correspond to a character of the source"))
    return probs
