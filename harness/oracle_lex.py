"""Independent raw scanner: the C09 / C10 statements evaluated on the implementation's own
token stream, from the raw text alone (no use of the model)."""
from lexcorr import TRI, DI, visual_positions

_SPELL = None


def spellings():
    """token type -> standard spelling, from the dictionaries of the code under test."""
    global _SPELL
    if _SPELL is None:
        from norminette.lexer import dictionary as d
        sp = {}
        for tbl in (d.keywords, d.operators, d.brackets):
            for k, v in tbl.items():
                sp.setdefault(v, k)
        sp.update({"SPACE": " ", "TAB": "\t", "NEWLINE": "\n"})
        _SPELL = sp
    return _SPELL


def skip_splices(src, o):
    while True:
        if src.startswith("\\\n", o):
            o += 2
        elif src.startswith("??/\n", o):
            o += 4
        else:
            return o


def walk_ends(src, o, text, vp, kind):
    """All raw end offsets at which `text` (normalised) can be read from raw offset o, preferred
    first; plus a reason when there is none.  Inside strings, character constants and comments a
    line splice of the source may have been removed (the documented normalisation) or kept
    verbatim (e.g. after an escaped backslash): both reproduce the input, both are accepted."""
    in_tok_splices = kind in ("STRING", "CHAR_CONST", "COMMENT", "MULT_COMMENT")
    n = len(text)
    why = ["no match"]
    stack = [(o, 0)]
    seen = set()
    ends = []
    while stack:
        o, i = stack.pop()
        if (o, i) in seen:
            continue
        seen.add((o, i))
        if i == n:
            if o not in ends:
                ends.append(o)
            continue
        if o >= len(src):
            why[0] = f"source exhausted at text index {i}"
            continue
        e = text[i]
        if kind == "MULT_COMMENT" and src[o] == "\t":
            spaces = 4 - (vp[o][1] - 1) % 4
            if text[i:i + spaces] == " " * spaces:
                stack.append((o + 1, i + spaces))
            else:
                why[0] = f"tab at offset {o} should expand to {spaces} spaces"
            continue
        tri = src[o:o + 3]
        di = src[o:o + 2]
        if tri in TRI:
            if TRI[tri] == e:
                stack.append((o + 3, i + 1))
            else:
                why[0] = f"offset {o}: trigraph {tri!r} gives {TRI[tri]!r}, token has {e!r}"
        elif di in DI:
            if DI[di] == e:
                stack.append((o + 2, i + 1))
            else:
                why[0] = f"offset {o}: digraph {di!r} gives {DI[di]!r}, token has {e!r}"
        elif src[o] == e:
            stack.append((o + 1, i + 1))
        else:
            why[0] = f"offset {o}: source has {src[o]!r}, token has {e!r}"
        # preferred option (pushed last, tried first): drop a splice, as the lexer normally does
        if in_tok_splices and i > 0:
            o2 = skip_splices(src, o)
            if o2 != o:
                stack.append((o2, i))
    return ends, why[0]


def walk(src, o, text, vp, kind):
    ends, why = walk_ends(src, o, text, vp, kind)
    return (ends[0], None) if ends else (None, why)


def check_stream(src, tokens, diags):
    """tokens: [type, line, col, value]; diags: [name, text, level, [[line, col, len, hint]..]].
    Returns a list of (property, class, problem) found.

    C10 is decided without looking at positions: tokens (in order) and reported bad lexemes (in
    order) must spell the source consecutively, with only line splices in between (a search over
    the few places where a splice may or may not belong to a token).  The successful reading
    yields the raw start offset of every token; C09 then compares each reported (line, col) with
    the visual position of that offset."""
    vp = visual_positions(src)
    sp = spellings()
    bads = [d for d in diags if d[0] == "BAD_LEXEME"]
    texts = []
    for k, (ty, line, col, value) in enumerate(tokens):
        text = value if value is not None else sp.get(ty)
        if text is None:
            return [("C10", "no-spelling", f"token {k}: type {ty} has no spelling in the dictionaries")]
        texts.append(text)

    def bad_char(d):
        t = d[1]
        pre, post = "No matchable token for '", "' lexeme"
        return t[len(pre):-len(post)] if t.startswith(pre) and t.endswith(post) else None

    nt, nb, ns = len(tokens), len(bads), len(src)
    best = [(-1, 0, "no reading")]       # furthest failure: (token index, cursor, why)
    seen = set()
    # state: (k, cursor, bi, starts tuple, badpos tuple) explored depth-first, preferred choices first
    stack = [(0, 0, 0, (), ())]
    solution = None
    while stack:
        k, cur, bi, starts, badpos = stack.pop()
        if (k, cur, bi) in seen:
            continue
        seen.add((k, cur, bi))
        if k == nt and bi == nb and cur == ns:
            solution = (starts, badpos)
            break
        nxt = []
        # a reported bad lexeme
        if bi < nb and cur < ns and bad_char(bads[bi]) == src[cur]:
            nxt.append((k, cur + 1, bi + 1, starts, badpos + (cur,)))
        # an inter-token splice
        c2 = skip_splices(src, cur)
        if c2 != cur:
            nxt.append((k, c2, bi, starts, badpos))
        # the next token
        if k < nt:
            ends, why = walk_ends(src, cur, texts[k], vp, tokens[k][0])
            if not ends and (k, cur) > (best[0][0], best[0][1]):
                best[0] = (k, cur, why)
            for e in reversed(ends):
                nxt.append((k + 1, e, bi, starts + (cur,), badpos))
        elif (k, cur) > (best[0][0], best[0][1]):
            best[0] = (k, cur, "end of tokens")
        for st in nxt:
            stack.append(st)
    if solution is None:
        # no reading: still, a reported position must be the place of SOME character that can start the token
        probs0 = []
        where = {}
        for o, pos in enumerate(vp[:-1]):
            where.setdefault(pos, []).append(o)
        for k, (ty, line, col, value) in enumerate(tokens):
            first = texts[k][:1]
            ok = False
            for o in where.get((line, col), []):
                if src[o] == first or TRI.get(src[o:o + 3]) == first or DI.get(src[o:o + 2]) == first:
                    ok = True
            if first and not ok:
                probs0.append(("C09", "position-not-a-start", f"token {k} {ty} reported at ({line},{col}), where no character that can start it stands"))
                break
        k, cur, why = best[0]
        if k < nt and k >= 0:
            ty = tokens[k][0]
            return probs0 + [("C10", "content-differs", f"token {k} {ty} {texts[k]!r} does not spell the source at offset {cur} ({src[cur:cur+12]!r}...): {why}")]
        if cur < ns:
            return probs0 + [("C10", "characters-dropped", f"characters {src[cur:cur+20]!r} at offset {cur} are in no token and not reported as bad lexemes")]
        return probs0 + [("C10", "phantom-bad-lexeme", "BAD_LEXEME diagnostics do not correspond to characters of the source")]
    probs = []
    starts, badpos = solution
    for k, (ty, line, col, value) in enumerate(tokens):
        if (line, col) != vp[starts[k]]:
            probs.append(("C09", "position", f"token {k} {ty} reported at ({line},{col}); its first character (offset {starts[k]}) is at {vp[starts[k]]}"))
    for d, o in zip(bads, badpos):
        hl = d[3][0] if d[3] else None
        if hl is not None and (hl[0], hl[1]) != vp[o]:
            probs.append(("C09", "bad-lexeme-position", f"BAD_LEXEME for {src[o]!r} reported at ({hl[0]},{hl[1]}), the character is at {vp[o]}"))
    # escape diagnostics point at the escaped character (UNKNOWN_ESCAPE) / at the `x` (NO_HEX_DIGITS): a character
    # that directly follows a backslash, in either spelling
    where = {}
    for o, pos in enumerate(vp[:-1]):
        where[pos] = o
    for d in diags:
        if d[0] in ("UNKNOWN_ESCAPE", "NO_HEX_DIGITS") and d[3]:
            line, col = d[3][0][0], d[3][0][1]
            o = where.get((line, col))
            after_bs = o is not None and o > 0 and (src[o - 1] == "\\" or src[max(0, o - 3):o] == "??/")
            if not after_bs or (d[0] == "NO_HEX_DIGITS" and src[o] != "x"):
                probs.append(("C09", "escape-diagnostic-position", f"{d[0]} reported at ({line},{col}), which is not the place of an escaped character"
                              f" ({src[o:o+1]!r} at offset {o})" if o is not None else f"{d[0]} reported at ({line},{col}): no character there"))
    return probs
