"""Observation of the real engine loop (no source hook: wrappers installed from the harness).
For one file: the sequence of loop iterations (which primary matched, its jump, what was
popped), the scope level after each, the outcome."""
import io
import contextlib

from impl import watchdog, Hang, classify_exc, hang_site, registry
from norminette.file import File
from norminette.lexer import Lexer
from norminette.context import Context
from norminette.registry import Registry
from norminette.rules import Primary
from norminette.exceptions import CParsingError


def run_traced(name, src, debug=0, timeout=10.0):
    f = File(name, src)
    out = io.StringIO()
    events = []          # per iteration: dict(decision, start, popped, nbefore, first_tok, last_tok, lvl, scope)
    cur = {"match": None}
    res = {"name": name, "n": None, "iterations": events, "outcome": None, "fatal_by": None}
    reg = registry()
    orig_run_rules = reg.run_rules

    stack = []
    emitted = []         # (emitting rule class, code, line, column) in emission order
    res["emitted"] = emitted

    orig_pos = {}        # id(token) -> position it had when lexed, for tokens a rule moved
    moved = []           # (rule that overwrote a token position, original position, new position)
    res["moved"] = moved

    def run_rules(context, rule):
        stack.append(getattr(rule, "__name__", str(rule)))
        snap = [(t, t.pos) for t in context.tokens[: max(context.tkn_scope, 1) + 1]]
        try:
            ret, read = orig_run_rules(context, rule)
        finally:
            stack.pop()
            for t, p in snap:
                if t.pos != p and id(t) not in orig_pos:
                    orig_pos[id(t)] = p
                    moved.append([getattr(rule, "__name__", str(rule)), list(p), list(t.pos)])
        if isinstance(rule, type) and issubclass(rule, Primary) and ret is True and cur["match"] is None:
            cur["match"] = (rule.__name__, read)
        return ret, read

    try:
        with watchdog(timeout), contextlib.redirect_stdout(out):
            toks = list(Lexer(f))
            res["n"] = len(toks)
            ctx = Context(f, toks, debug, None)
            orig_pop = ctx.pop_tokens

            def pop_tokens(stop):
                nb = len(ctx.tokens)
                seg = ctx.tokens[:stop] if stop > 0 else []
                events.append({
                    "decision": list(cur["match"]) if cur["match"] else None,
                    "start": res["n"] - nb, "popped": min(max(stop, 0), nb), "stop": stop,
                    "first": [seg[0].type, seg[0].pos[0], seg[0].pos[1]] if seg else None,
                    "last": [seg[-1].type, seg[-1].pos[0], seg[-1].pos[1]] if seg else None,
                    "lvl": ctx.scope.lvl, "scope": ctx.scope.name,
                })
                cur["match"] = None
                return orig_pop(stop)
            ctx.pop_tokens = pop_tokens
            for meth in ("new_error", "new_warning"):
                def wrap(orig):
                    def w(errno, tkn):
                        t = tkn if tkn is not None else (ctx.tokens[-1] if ctx.tokens else None)
                        tp = orig_pos.get(id(t), t.pos) if t else None       # the position the token was lexed at
                        emitted.append([stack[-1] if stack else None, errno, tp[0] if t else None, tp[1] if t else None])
                        return orig(errno, tkn)
                    return w
                setattr(ctx, meth, wrap(getattr(ctx, meth)))
            reg.run_rules = run_rules
            try:
                reg.run(ctx)
            finally:
                reg.run_rules = orig_run_rules
            res["final_scope"] = ctx.scope.name
    except Hang as e:
        res["outcome"] = "hang@" + hang_site(e.__traceback__)
    except CParsingError as e:
        res["outcome"] = "fatal"
        res["msg"] = e.msg
        import traceback as tb
        frames = tb.extract_tb(e.__traceback__)
        inner = [fr for fr in frames if "/norminette/" in fr.filename][-1]
        res["fatal_by"] = "engine" if inner.filename.endswith("registry.py") and inner.name == "run" else "rule"
        res["pending"] = list(cur["match"]) if cur["match"] else None
    except Exception as e:
        res["outcome"] = classify_exc(e)
    else:
        res["outcome"] = "ok"
        res["status"] = f.errors.status
    res["stdout"] = out.getvalue()
    return res


def decisions(tr):
    """what the model's rule-table oracle must answer, iteration by iteration"""
    ds = [it["decision"] for it in tr["iterations"]]
    if tr["outcome"] == "fatal":
        if tr["fatal_by"] == "engine":
            # the engine raised: either on a match (pending decision) or after the loop
            if tr.get("pending"):
                ds.append(tr["pending"])
        else:
            ds.append("fatal")
    return ds
