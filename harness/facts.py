"""Syntactic frame facts about the source of /repo (Tie 1, DESIGN §2.3): read from the AST of
the modules that are importable right now, printed as Lean literals into Generated/Facts.lean.
A fact is an over-approximation: a *new* reader/writer that appears in the code shows up here
and breaks the `decide` obligation of the property that relies on its absence."""
import os
import ast
import glob

from gen_tables import lstr, llist, HEADER

MUTATORS = {"append", "extend", "add", "pop", "remove", "insert", "update", "clear", "setdefault", "sort", "reverse", "discard", "popitem"}


def _modules():
    import norminette
    root = os.path.dirname(norminette.__file__)
    out = []
    for p in sorted(glob.glob(os.path.join(root, "**", "*.py"), recursive=True)):
        rel = os.path.relpath(p, os.path.dirname(root))
        try:
            out.append((rel, ast.parse(open(p).read())))
        except SyntaxError:
            pass
    return out


def is_mutable_literal(node):
    if isinstance(node, (ast.List, ast.Dict, ast.Set, ast.ListComp, ast.DictComp, ast.SetComp)):
        return True
    if isinstance(node, ast.Call) and isinstance(node.func, ast.Name) and node.func.id in ("list", "dict", "set", "defaultdict"):
        return True
    return False


def gen_facts():
    mods = _modules()
    class_mutables = set()      # class-level attribute names bound to a mutable literal
    module_mutables = {}        # module -> names bound at module level to a mutable literal
    mutated_attrs = set()       # attribute names x such that some `<expr>.x.<mutator>(…)`, `<expr>.x[...] = …` or `<expr>.x += …` occurs
    mutated_names = {}          # module -> bare names mutated inside a function body
    global_decls = []
    debug_readers = []          # modules reading `.debug`
    value_readers = []          # modules reading `.value`
    lineno_readers = []         # modules reading `.pos[0]` / `.lineno`
    sys_exit = []
    history_readers = []
    file_attr_readers = {}      # attribute of context.file read in rules
    args_reads = set()
    one_shot = []               # module- or class-level names bound to a one-shot iterator
    registry_state = []         # attributes of the long-lived Registry written outside __init__
    ITER_CALLS = {"map", "filter", "zip", "iter", "reversed", "enumerate"}

    def is_one_shot(v):
        if isinstance(v, ast.GeneratorExp):
            return True
        return isinstance(v, ast.Call) and isinstance(v.func, ast.Name) and v.func.id in ITER_CALLS
    for rel, tree in mods:
        scopes = [(rel, tree.body)] + [(f"{rel}:{c.name}", c.body) for c in ast.walk(tree) if isinstance(c, ast.ClassDef)]
        for where, body in scopes:
            for st in body:
                if isinstance(st, ast.Assign) and is_one_shot(st.value):
                    one_shot += [f"{where}:{t.id}" for t in st.targets if isinstance(t, ast.Name)]
                if isinstance(st, ast.AnnAssign) and st.value is not None and is_one_shot(st.value) and isinstance(st.target, ast.Name):
                    one_shot.append(f"{where}:{st.target.id}")
        if rel.endswith("registry.py"):
            for c in ast.walk(tree):
                if isinstance(c, ast.ClassDef) and c.name == "Registry":
                    for fn in c.body:
                        if isinstance(fn, ast.FunctionDef) and fn.name != "__init__":
                            for node in ast.walk(fn):
                                tgts = []
                                if isinstance(node, ast.Assign):
                                    tgts = node.targets
                                elif isinstance(node, (ast.AugAssign, ast.AnnAssign)):
                                    tgts = [node.target]
                                elif isinstance(node, ast.Call) and isinstance(node.func, ast.Attribute) and node.func.attr in MUTATORS:
                                    tgts = [node.func.value]
                                for t in tgts:
                                    base = t.value if isinstance(t, ast.Subscript) else t
                                    if isinstance(base, ast.Attribute) and isinstance(base.value, ast.Name) and base.value.id == "self":
                                        registry_state.append(f"{fn.name}:{base.attr}")
        for node in ast.walk(tree):
            if isinstance(node, ast.ClassDef):
                for st in node.body:
                    if isinstance(st, ast.Assign) and is_mutable_literal(st.value):
                        for t in st.targets:
                            if isinstance(t, ast.Name):
                                class_mutables.add(t.id)
                    if isinstance(st, ast.AnnAssign) and st.value is not None and is_mutable_literal(st.value) and isinstance(st.target, ast.Name):
                        class_mutables.add(st.target.id)
        for st in tree.body:
            if isinstance(st, ast.Assign) and is_mutable_literal(st.value):
                for t in st.targets:
                    if isinstance(t, ast.Name):
                        module_mutables.setdefault(rel, set()).add(t.id)
        for fn in ast.walk(tree):
            if not isinstance(fn, (ast.FunctionDef, ast.AsyncFunctionDef)):
                continue
            local = {a.arg for a in fn.args.args + fn.args.kwonlyargs}
            for node in ast.walk(fn):
                if isinstance(node, (ast.Assign, ast.AnnAssign, ast.AugAssign, ast.For, ast.NamedExpr)):
                    tgts = node.targets if isinstance(node, ast.Assign) else [node.target]
                    for t in tgts:
                        for n in ast.walk(t):
                            if isinstance(n, ast.Name):
                                local.add(n.id)
            for node in ast.walk(fn):
                if isinstance(node, ast.Global):
                    global_decls.append(f"{rel}:{fn.name}:{','.join(node.names)}")
                if isinstance(node, ast.Call) and isinstance(node.func, ast.Attribute) and node.func.attr in MUTATORS:
                    tgt = node.func.value
                    if isinstance(tgt, ast.Attribute):
                        mutated_attrs.add(tgt.attr)
                    elif isinstance(tgt, ast.Name) and tgt.id not in local:
                        mutated_names.setdefault(rel, set()).add(tgt.id)
                if isinstance(node, (ast.Assign, ast.AugAssign)):
                    tgts = node.targets if isinstance(node, ast.Assign) else [node.target]
                    for t in tgts:
                        if isinstance(t, ast.Subscript) and isinstance(t.value, ast.Attribute):
                            mutated_attrs.add(t.value.attr)
                        if isinstance(node, ast.AugAssign) and isinstance(t, ast.Attribute):
                            pass
                if isinstance(node, ast.Attribute):
                    if node.attr == "debug":
                        debug_readers.append(rel)
                    if node.attr == "value":
                        value_readers.append(rel)
                    if node.attr in ("lineno",):
                        lineno_readers.append(rel)
                    if node.attr == "history":
                        history_readers.append(rel)
                    if isinstance(node.value, ast.Name) and node.value.id == "args":
                        args_reads.add(node.attr)
                    if node.attr == "exit" and isinstance(node.value, ast.Name) and node.value.id == "sys":
                        sys_exit.append(rel)
    shared_mutable = sorted(class_mutables & mutated_attrs)
    module_written = sorted(f"{rel}:{n}" for rel, names in mutated_names.items() for n in names if n in module_mutables.get(rel, set()))

    def uniq(xs):
        return sorted(set(xs))
    return HEADER + f"""namespace Norm.Generated

/-- class-level attributes bound to a mutable literal that some code mutates through an
attribute access (`x.attr.append(…)`, `x.attr[k] = …`): state shared by all instances -/
def sharedMutableClassAttrs : List String := {llist(shared_mutable)}

/-- module-level mutable objects that a function body of the same module mutates -/
def moduleLevelWrites : List String := {llist(module_written)}

/-- module- or class-level names bound to a one-shot iterator (`map`, `filter`, `zip`, a generator
expression, …): exhausted by its first use, so later files would see something else -/
def moduleLevelIterators : List String := {llist(uniq(one_shot))}

/-- attributes of the (process-long) `Registry` instance written by a method other than `__init__` -/
def registryInstanceWrites : List String := {llist(uniq(registry_state))}

/-- `global` declarations inside functions -/
def globalDecls : List String := {llist(uniq(global_decls))}

/-- class-level attributes bound to a mutable literal (mutated or not) -/
def classMutableAttrs : List String := {llist(sorted(class_mutables))}

/-- modules that read an attribute called `debug` -/
def debugReaders : List String := {llist(uniq(debug_readers))}

/-- modules that read an attribute called `value` (token spelling) -/
def valueReaders : List String := {llist(uniq(value_readers))}

/-- modules that read an attribute called `lineno` -/
def linenoReaders : List String := {llist(uniq(lineno_readers))}

/-- modules that read an attribute called `history` -/
def historyReaders : List String := {llist(uniq(history_readers))}

/-- attributes of the argparse namespace `args` that `main` reads -/
def argsReads : List String := {llist(sorted(args_reads))}

/-- modules calling `sys.exit` -/
def sysExitCallers : List String := {llist(uniq(sys_exit))}

end Norm.Generated
"""


if __name__ == "__main__":
    print(gen_facts())
