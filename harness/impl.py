"""Runs the REAL norminette code (the working tree of /repo) in-process or as a subprocess."""
import io
import os
import sys
import signal
import traceback
import contextlib
import subprocess

from core import REPO, PY, Infra, ensure_repo

ensure_repo()
from norminette.file import File            # noqa: E402
from norminette.lexer import Lexer          # noqa: E402
from norminette.context import Context      # noqa: E402
from norminette.registry import Registry    # noqa: E402
from norminette.exceptions import CParsingError  # noqa: E402
from norminette.errors import HumanizedErrorsFormatter, JSONErrorsFormatter, Error, Errors, Highlight  # noqa: E402

_registry = None


def registry():
    global _registry
    if _registry is None:
        _registry = Registry()
    return _registry


class Hang(BaseException):
    pass


@contextlib.contextmanager
def watchdog(seconds):
    def handler(signum, frame):
        raise Hang()
    old = signal.signal(signal.SIGALRM, handler)
    signal.setitimer(signal.ITIMER_REAL, seconds)
    try:
        yield
    finally:
        signal.setitimer(signal.ITIMER_REAL, 0)
        signal.signal(signal.SIGALRM, old)


def hl_tuple(h):
    return [h.lineno, h.column, h.length, h.hint]


def diag_tuple(e):
    return [e.name, e.text, e.level, [hl_tuple(h) for h in e.highlights]]


def classify_tb(etype, tb):
    """<kind>:<ExcType>@<innermost norminette frame file:function>[<-<innermost rule frame>]"""
    frames = traceback.extract_tb(tb) if not isinstance(tb, list) else tb
    where, rule = "?", None
    for fr in frames:
        if "/norminette/" in fr.filename:
            rel = os.path.relpath(fr.filename, REPO)
            where = rel + ":" + fr.name
            if "/norminette/rules/" in fr.filename:
                rule = rel.replace("norminette/rules/", "") + ":" + fr.name
    sig = f"{etype}@{where}"
    if rule and not where.endswith(rule):
        sig += "<-" + rule
    return sig


def hang_site(tb):
    """where a run that does not finish is spinning: the outermost rule frame is stable (the
    loop may call helpers), else the innermost norminette frame"""
    frames = traceback.extract_tb(tb)
    for fr in frames:
        if "/norminette/rules/" in fr.filename:
            return os.path.relpath(fr.filename, REPO).replace("norminette/rules/", "") + ":" + fr.name
    for fr in reversed(frames):
        if "/norminette/" in fr.filename:
            return os.path.relpath(fr.filename, REPO) + ":" + fr.name
    return "?"


def classify_exc(e):
    return "crash:" + classify_tb(type(e).__name__, e.__traceback__)


def lex_impl(src, name="f.c", timeout=10.0):
    """tokens, lexical diagnostics in insertion order, exception class."""
    f = File(name, src)
    try:
        with watchdog(timeout):
            toks = list(Lexer(f))
    except Hang:
        return {"exc": "hang"}
    except RecursionError as e:
        return {"exc": classify_exc(e)}
    except Exception as e:
        return {"exc": classify_exc(e)}
    return {
        "tokens": [[t.type, t.pos[0], t.pos[1], t.value] for t in toks],
        "diags": [diag_tuple(e) for e in f.errors._inner],
        "exc": None,
    }


def pipeline(name, src, debug=0, R=None, timeout=10.0, reg=None, keep=False):
    """Lexer + rule engine on one file, the way `main` does it.  Returns
    {outcome: ok|fatal|crash:..|hang, diags (sorted as the formatters see them), status, msg}."""
    f = File(name, src)
    out = io.StringIO()
    ctx = None
    try:
        with watchdog(timeout), contextlib.redirect_stdout(out):
            toks = list(Lexer(f))
            ctx = Context(f, toks, debug, R)
            (reg or registry()).run(ctx)
    except Hang as e:
        return {"outcome": "hang@" + hang_site(e.__traceback__), "diags": [], "stdout": out.getvalue()}
    except CParsingError as e:
        return {"outcome": "fatal", "msg": e.msg, "diags": [], "stdout": out.getvalue()}
    except RecursionError as e:
        return {"outcome": classify_exc(e), "diags": [], "stdout": out.getvalue()}
    except Exception as e:
        return {"outcome": classify_exc(e), "diags": [], "stdout": out.getvalue(),
                "trace": traceback.format_exc()[-1500:]}
    # the answer is what gets printed: both formatters must be able to render the diagnostics
    try:
        with watchdog(timeout):
            text_h = str(HumanizedErrorsFormatter([f], use_colors=False))
            text_j = str(JSONErrorsFormatter([f]))
    except Hang as e:
        return {"outcome": "hang@" + hang_site(e.__traceback__), "diags": [], "stdout": out.getvalue()}
    except Exception as e:
        return {"outcome": classify_exc(e), "diags": [], "stdout": out.getvalue(), "trace": traceback.format_exc()[-1500:]}
    res = {"outcome": "ok", "raw": [diag_tuple(e) for e in f.errors._inner], "printed": text_h, "printed_json": text_j,
           "diags": [diag_tuple(e) for e in f.errors], "status": f.errors.status,
           "stdout": out.getvalue()}
    if keep:
        res["file"] = f
        res["ctx"] = ctx
    return res


def shown(diags):
    """(level, code, line, col) of each diagnostic as displayed."""
    return [(d[2], d[0], d[3][0][0], d[3][0][1]) if d[3] else (d[2], d[0], None, None) for d in diags]


def run_cli(argv, cwd, timeout=60, env=None):
    e = dict(os.environ)
    e["PYTHONPATH"] = REPO
    e.pop("NORMINETTE_VERIF", None)
    if env:
        e.update(env)
    try:
        p = subprocess.run([PY, "-m", "norminette"] + list(argv), cwd=cwd, stdout=subprocess.PIPE,
                           stderr=subprocess.PIPE, text=True, timeout=timeout, env=e)
    except subprocess.TimeoutExpired:
        return {"exit": None, "stdout": "", "stderr": "", "hang": True}
    return {"exit": p.returncode, "stdout": p.stdout, "stderr": p.stderr, "hang": False}


def main_inprocess(argv, cwd):
    """Call the real `main()` in this process (patched argv/cwd/stdout)."""
    import norminette.__main__ as M
    out, err = io.StringIO(), io.StringIO()
    old_argv, old_cwd = sys.argv, os.getcwd()
    code = None
    exc = None
    try:
        os.chdir(cwd)
        sys.argv = ["norminette"] + list(argv)
        with contextlib.redirect_stdout(out), contextlib.redirect_stderr(err), watchdog(60):
            try:
                M.main()
            except SystemExit as e:
                code = e.code if isinstance(e.code, int) else (0 if e.code is None else 1)
            except Hang:
                exc = "hang"
            except Exception as e:
                exc = classify_exc(e)
    finally:
        sys.argv = old_argv
        os.chdir(old_cwd)
    return {"exit": code, "stdout": out.getvalue(), "stderr": err.getvalue(), "exc": exc}


_fresh = {}


def pipeline_fresh(name, src):
    """`pipeline` in a fresh interpreter (no history at all); cached per (name, text)"""
    import json
    key = (name, src)
    if key not in _fresh:
        code = ("import sys, json; sys.path.insert(0, %r); from impl import pipeline; a = json.load(sys.stdin); "
                "r = pipeline(a[0], a[1]); print(json.dumps({k: r.get(k) for k in ('outcome', 'msg', 'raw', 'diags', 'status')}))" % os.path.dirname(os.path.abspath(__file__)))
        e = dict(os.environ, PYTHONPATH=REPO)
        p = subprocess.run([PY, "-c", code], input=json.dumps([name, src]), stdout=subprocess.PIPE, stderr=subprocess.PIPE, text=True, timeout=120, env=e)
        if p.returncode != 0:
            raise Infra("pipeline_fresh failed: " + p.stderr[-300:])
        _fresh[key] = json.loads(p.stdout.strip().split("\n")[-1])
    return dict(_fresh[key])
