"""Correspondence stream `always`: source text -> model lexer -> engine loop replaying the observed
rule decisions -> the ported checks of Model/Checks.lean and Model/Spacing.lean (CheckTernary, CheckLineLen, CheckHeader, CheckSpacing,
CheckManyInstructions, CheckCommentLineLen), against what those rules really emitted (emitter observed by wrapping new_error from the harness).
This is the tie of the end-to-end theorems C03.linelen_e2e / linelen_source / long_line_reported /
short_lines_silent, C02.ternary_e2e / ternary_sound and C13.at_most_once_file / reject_file / accept_file."""
from core import Driver, uncps
from lexcorr import lex_request
from trace import run_traced, decisions

PORTED = {"CheckTernary": ("TERNARY_FBIDDEN",), "CheckLineLen": ("LINE_TOO_LONG",), "CheckHeader": ("INVALID_HEADER",),
          "CheckSpacing": ("MIXED_SPACE_TAB", "SPACE_EMPTY_LINE", "SPACE_REPLACE_TAB", "SPC_BEFORE_NL", "CONSECUTIVE_SPC"),
          "CheckManyInstructions": ("TOO_MANY_INSTR",), "CheckCommentLineLen": ("LINE_TOO_LONG",)}


def check(res, cases, stream="always"):
    """cases: (name, src).  Returns the number of compared runs."""
    reqs, metas = [], []
    for name, src in cases:
        tr = run_traced(name, src, debug=0)
        res.count(stream, 1)
        if tr["outcome"] != "ok" or tr["n"] is None:
            continue
        r = lex_request(src)
        r.update({"op": "always", "n": tr["n"], "debug": 0, "decisions": decisions(tr)})
        reqs.append(r)
        metas.append((name, src, tr))
    if not reqs:
        return 0
    nbad, first = 0, None
    for (name, src, tr), m in zip(metas, Driver().batch(reqs)):
        res.traces_validated += 1
        real = [[e[1], e[2], e[3]] for e in tr["emitted"] if e[0] in PORTED]
        # every diagnostic of the two codes that another rule emitted is not the model's business,
        # but a ported rule emitting another code is
        odd = [e for e in tr["emitted"] if e[0] in PORTED and e[1] not in PORTED[e[0]]]
        if m.get("outcome") != "ok":
            ok, model = False, m
        else:
            model = [[uncps(d[0]), d[3][0][0], d[3][0][1]] for d in m["diags"]]
            ok = sorted(model) == sorted(real) and not odd
        if real:
            res.nontriv((stream, src))
        if not ok:
            nbad += 1
            first = first or (name, str(model)[:160], str(real)[:160], src[-80:])
    if nbad:
        res.broken.append(f"correspondence {stream}: {nbad} disagreements, e.g. {first}")
    return len(reqs)


def whitespace_variants(rng, text, k):
    """random blank-space perturbations of a program (spaces/tabs inserted at line starts, line
    ends, next to existing blanks, on empty lines): every branch of CheckSpacing"""
    out = []
    lines = text.split("\n")
    body = [i for i, l in enumerate(lines) if i > 11]
    for _ in range(k):
        ls = list(lines)
        for _ in range(rng.randint(1, 3)):
            if not body:
                break
            i = rng.choice(body)
            l = ls[i]
            how = rng.randrange(7)
            blank = rng.choice([" ", "  ", "\t", " \t", "\t ", "   "])
            if how == 0:
                ls[i] = l + blank
            elif how == 1:
                ls[i] = blank + l
            elif how == 2 and l.strip() == "":
                ls[i] = blank
            elif how == 3 and " " in l:
                j = rng.choice([m for m, c in enumerate(l) if c == " "])
                ls[i] = l[:j] + blank + l[j:]
            elif how == 4 and "\t" in l:
                j = rng.choice([m for m, c in enumerate(l) if c == "\t"])
                ls[i] = l[:j] + rng.choice([" ", "  ", " \t"]) + l[j + (rng.random() < 0.5):]
            elif how == 5 and l.startswith("\t"):
                ls[i] = "    " + l[1:]
            else:
                j = rng.randrange(len(l) + 1)
                ls[i] = l[:j] + blank + l[j:]
        out.append("\n".join(ls))
    return out
