"""Subprocess worker for C06/C14/C16: processes a list of files in ONE interpreter with ONE
Registry (as `main` does) and prints, per file, outcome and diagnostics.  Optionally permutes
what os.listdir returns for the rules directory before norminette is imported.
stdin: JSON {"files": [[name, src], ...], "listdir_seed": int|null, "debug": 0}"""
import io
import os
import sys
import json
import random
import contextlib


def main():
    req = json.load(sys.stdin)
    seed = req.get("listdir_seed")
    if seed is not None:
        real = os.listdir

        def listdir(path="."):
            out = real(path)
            if str(path).rstrip("/").endswith(os.path.join("norminette", "rules")):
                out = sorted(out)
                if seed == -1:
                    out.reverse()
                elif seed != 0:
                    random.Random(seed).shuffle(out)
            return out
        os.listdir = listdir
    from norminette.file import File
    from norminette.lexer import Lexer
    from norminette.context import Context
    from norminette.registry import Registry, rules
    from norminette.exceptions import CParsingError
    reg = Registry()
    # the host process may have its own settings: they are not norminette's to change
    if req.get("reclimit"):
        sys.setrecursionlimit(req["reclimit"])
    R = req.get("R")           # the ONE list object argparse hands to every Context of a run (nargs=1)

    def process_state():
        return {"recursionlimit": sys.getrecursionlimit(), "cwd": os.getcwd(), "environ": hash(frozenset(os.environ.items())),
                "sys.path": len(sys.path), "R": list(R) if R is not None else None}
    out = {"primaries": [r.__name__ for r in rules.primaries],
           "deps": {k: [r.__name__ for r in v] for k, v in reg.dependencies.items()}, "files": []}
    for name, src in req["files"]:
        f = File(name, src)
        buf = io.StringIO()
        before = process_state()
        try:
            with contextlib.redirect_stdout(buf):
                toks = list(Lexer(f))
                reg.run(Context(f, toks, req.get("debug", 0), R))
            res = {"outcome": "ok", "status": f.errors.status,
                   "diags": [[e.level, e.name, e.highlights[0].lineno if e.highlights else None,
                              e.highlights[0].column if e.highlights else None] for e in f.errors]}
        except CParsingError as e:
            res = {"outcome": "fatal", "msg": e.msg}
        except RecursionError:
            res = {"outcome": "crash:RecursionError"}
        except Exception as e:
            res = {"outcome": "crash:" + type(e).__name__}
        after = process_state()
        changed = sorted(k for k in before if before[k] != after[k])
        if changed:
            res["process_state_changed"] = {k: [before[k], after[k]] for k in changed}
        out["files"].append(res)
    print(json.dumps(out))


if __name__ == "__main__":
    main()
