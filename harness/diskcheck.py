"""The same content, stored in a file and read by the real command line, gets what the text gets.

Most streams hand the source text to `File(name, text)`; a user's file goes through `File.source` (open + decode)
and through `main`.  `from_disk` writes the text as UTF-8, runs the real `main` in this process with `-f json` and
returns what it printed for each file; `disk_vs_text` compares that with the in-process analysis of the text."""
import os
import json
import shutil
import tempfile


def from_disk(files, opts=(), order=None):
    """files: {relative name: text}.  Returns {"exit", "exc", "files": {name: {"status", "diags": [(level, code, line, col)]}}, "stdout"}"""
    from impl import main_inprocess
    d = tempfile.mkdtemp(prefix="verif_disk_")
    try:
        for nm, text in files.items():
            p = os.path.join(d, nm)
            os.makedirs(os.path.dirname(p), exist_ok=True)
            with open(p, "w", encoding="utf-8", newline="") as f:
                f.write(text)
        argv = list(opts) + ["-f", "json"] + list(order or files)
        out = main_inprocess(argv, d)
        res = {"exit": out["exit"], "exc": out.get("exc"), "stdout": out["stdout"], "files": {}}
        try:
            doc = json.loads(out["stdout"])
            for e in doc["files"]:
                rel = os.path.relpath(e["path"], os.path.realpath(d)) if os.path.isabs(e["path"]) else e["path"]
                res["files"].setdefault(rel, []).append({"status": e["status"], "diags": [
                    (x["level"], x["name"], x["highlights"][0]["lineno"], x["highlights"][0]["column"]) for x in e["errors"]]})
        except Exception:
            res["unparsed"] = out["stdout"][:300]
        return res
    finally:
        shutil.rmtree(d, ignore_errors=True)


def disk_vs_text(res, name, src, stream="disk", opts=()):
    """one file: what the command line reports for the stored file == what the text gets in-process"""
    from impl import pipeline
    r = pipeline(name, src)
    if r["outcome"] != "ok":
        return None
    want = sorted((d[2], d[0], d[3][0][0], d[3][0][1]) for d in r["diags"] if d[3])
    got = from_disk({name: src}, opts)
    res.count(stream, 1)
    if any(ord(c) > 127 for c in src):
        res.nontriv((stream, src))
    entry = (got["files"].get(name) or [None])[0]
    rp = {"kind": "disk", "name": name, "src": src, "opts": list(opts)}
    if entry is None:
        res.report("disk:no-report", f"{name}: the command line printed no report for the stored file ({got.get('exc')}, exit {got['exit']}): {got.get('unparsed', '')[:120]!r}", rp)
        return None
    have = sorted(entry["diags"])
    if have != want:
        gone = [x for x in want if x not in have][:3]
        came = [x for x in have if x not in want][:3]
        res.report("disk:differs-from-text", f"{name}: stored file and text disagree: only for the text {gone}, only for the file {came}", rp)
    return entry


def replay(rp):
    import core
    r = core.Result("disk", "replay", 0)
    disk_vs_text(r, rp["name"], rp["src"], opts=rp.get("opts", ()))
    print("source:", repr(rp["src"][:300]))
    for v in r.violations:
        print("VIOLATED:", v[0], v[1][:300])
    return 1 if r.violations else 0


# lines a C file may hold that are not ASCII: comments and literals (one column per character)
NON_ASCII = ["é", "ü", "ñ", "漢", "€", "é漢"]
