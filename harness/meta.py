"""Shared pieces of the metamorphic properties C16–C19: diagnostics of a file as a comparable
set, token-level views of a source, consistent renamings, same-width replacements."""
import random

import faults
from impl import pipeline, shown, lex_impl

SPECIAL_NAMES = {"__attribute__", "environ", "defined", "h", "define", "include", "ifndef", "ifdef", "if", "elif", "else", "endif",
                 "undef", "pragma", "error", "warning", "import", "line", "main", "once"}


def diags(name, src, **kw):
    """(outcome, sorted [(level, code, line, col)])"""
    r = pipeline(name, src, **kw)
    return r["outcome"], sorted(shown(r["diags"])), r


def tokens_with_spans(src):
    r = lex_impl(src)
    if r.get("exc"):
        return None
    spans = faults.token_spans(src)
    if not spans or len(spans) != len(r["tokens"]):
        return None
    return list(zip(r["tokens"], spans))


def line_of_offset(src, off):
    return src.count("\n", 0, off) + 1


def line_text(src, off):
    a = src.rfind("\n", 0, off) + 1
    b = src.find("\n", off)
    return src[a:(b if b >= 0 else len(src))]


# ---------------------------------------------------------------- C18: renamings

KEYWORD_WORDS = ["int", "char", "long", "short", "do", "if", "else", "for", "while", "void", "const", "static", "inline",
                 "default", "case", "goto", "enum", "union", "struct", "float", "double", "return", "break", "signed"]

UPPER_WORDS = ["DEFINED", "IF", "ELSE", "ELIF", "ENDIF", "IFDEF", "IFNDEF", "DEFINE", "INCLUDE", "UNDEF", "INT", "CHAR", "LONG", "VOID", "WHILE",
               "RETURN", "STRUCT", "SIZEOF", "TYPEDEF", "STATIC", "CONST", "GOTO", "DO", "FOR"]


_TOOL_WORDS = None


def tool_words():
    """upper-case words of the tool's own vocabulary: the names it gives to token types (an identifier may be spelled
    `TAB`, `SPACE`, `COMMA`, `NEWLINE`, `SEMI_COLON`, `ASSIGN`, `IDENTIFIER` ...)"""
    global _TOOL_WORDS
    if _TOOL_WORDS is None:
        from norminette.lexer import dictionary as D
        ws = {"IDENTIFIER", "CONSTANT", "STRING", "CHAR_CONST", "COMMENT", "MULT_COMMENT", "SPACE", "TAB", "NEWLINE", "ESCAPED_NEWLINE"}
        for nm in dir(D):
            v = getattr(D, nm)
            if isinstance(v, dict):
                ws.update(str(x) for x in v.values() if isinstance(x, str) and x.isupper())
        _TOOL_WORDS = sorted(ws)
    return _TOOL_WORDS


# a keyword as the beginning of a longer ordinary word
KEYWORD_STEMS = ["if", "do", "int", "for", "else", "case", "char", "enum", "goto", "long", "void", "auto", "elif", "endif", "ifdef", "define", "include", "return", "sizeof"]


def name_class_rename(name, rng):
    """a name of the same length and naming class: prefix kept, each character replaced by one
    of its own class (lower / upper / digit), underscores kept"""
    prefix = ""
    for p in ("g_", "s_", "t_", "u_", "e_"):
        if name.startswith(p):
            prefix = p
            break
    rest = name[len(prefix):]
    out = []
    lower_snake = rest == rest.lower()
    # a keyword followed by underscores is an ordinary identifier of the lower-case snake class
    if lower_snake and not prefix and rest[:1].isalpha() and rng.random() < 0.12:
        kws = [k for k in KEYWORD_WORDS if 1 <= len(rest) - len(k) <= 2]
        if kws:
            k = rng.choice(kws)
            return k + "_" * (len(rest) - len(k))
    for i, ch in enumerate(rest):
        if ch == "_" and lower_snake and rng.random() < 0.3 and not (i == 1 and rest[0] in "gstue"):
            out.append(rng.choice("abcdefghijklmnopqrstuvwxyz"))      # still lower-case snake case
        elif ch.islower():
            # a digit may stand for a lower-case letter only in an all-lower name: in a mixed-case name (`TOTo`) the
            # lower-case letters are what keeps it out of the upper-case class
            out.append(rng.choice("abcdefghijklmnopqrstuvwxyz" if i == 0 or not lower_snake or rng.random() > 0.1 else "0123456789"))
        elif ch.isupper():
            # all-upper names (macros) may carry digits after the first character, and underscores anywhere
            # as long as a letter remains (`_T_ONE` is as upper-case as `FT_ONE`)
            allup = rest == rest.upper()
            alldig = allup and i > 0 and rng.random() < 0.15
            if allup and not prefix and sum(c.isalpha() for c in rest) > 1 and any(c.isalpha() for c in rest[i + 1:]) and rng.random() < 0.12:
                out.append("_")
            else:
                out.append(rng.choice("0123456789" if alldig else "ABCDEFGHIJKLMNOPQRSTUVWXYZ"))
        elif ch.isdigit():
            out.append(rng.choice("0123456789"))
        else:
            out.append(ch)
    new = prefix + "".join(out)
    # endings that look like a naming convention for something else (`size_t`-like), upper-case names that are a
    # keyword or a directive word in capitals: still ordinary names of their class
    if lower_snake and not prefix and len(rest) >= 4 and rng.random() < 0.2:
        new = new[:-2] + rng.choice(["_t", "_s", "_e", "_u", "_p"])
    if rest == rest.upper() and any(c.isalpha() for c in rest) and not prefix and rng.random() < 0.3:
        kws = [k for k in UPPER_WORDS + tool_words() if len(k) == len(rest)]
        if kws:
            new = rng.choice(kws)
    # a lower-case name that BEGINS with a keyword or a directive word (`ifname`, `format`, `dot`, `intx`); a name that was
    # just given a conventional ending keeps it
    if lower_snake and not prefix and rest[:1].isalpha() and new[-2:] not in ("_t", "_s", "_e", "_u", "_p") and rng.random() < 0.2:
        st = [k for k in KEYWORD_STEMS if len(k) < len(rest)]
        if st:
            k = rng.choice(st)
            tail = "".join(rng.choice("abcdefghijklmnopqrstuvwxyz") for _ in range(len(rest) - len(k)))
            if k + tail not in KEYWORD_WORDS:
                new = k + tail
    # an upper-case name keeps at least one letter (`_056` is not upper-case any more)
    if rest == rest.upper() and any(c.isalpha() for c in rest) and not any(c.isalpha() for c in "".join(out)):
        return name
    # never create one of the five prefixes by accident
    if not prefix and new[:2] in ("g_", "s_", "t_", "u_", "e_"):
        return name
    return new


def apply_renaming(src, mapping):
    """rename the IDENTIFIER tokens listed in `mapping` (consistently), nothing else"""
    tw = tokens_with_spans(src)
    if tw is None:
        return None
    out, prev = [], 0
    for (t, (a, b)) in tw:
        out.append(src[prev:a])
        out.append(mapping[t[3]] if t[0] == "IDENTIFIER" and t[3] in mapping and src[a:b] == t[3] else src[a:b])
        prev = b
    out.append(src[prev:])
    return "".join(out)


def affix_renamings(src, name, keywords):
    """one renaming per (lower-case user identifier of four letters or more, conventional affix): the name keeps its
    length and class but ends like a type / begins like a keyword — `delta` -> `del_t`, `ifl_a`...; every other name stays"""
    tw = tokens_with_spans(src)
    if tw is None:
        return []
    guard = name.upper().replace(".", "_")
    names = sorted({t[3] for (t, _) in tw if t[0] == "IDENTIFIER"} - set(SPECIAL_NAMES) - set(keywords))
    used = set(names) | set(keywords)
    out = []
    for n in names:
        if n == n.upper() and any(c.isalpha() for c in n) and n.upper() != guard and not n.endswith("_H"):
            # an upper-case name (macro, enum constant) spelled like a keyword, a directive word or one of the tool's
            # own words of the same length
            for f in [w for w in UPPER_WORDS + tool_words() if len(w) == len(n)]:
                if f not in used and f != n:
                    new = apply_renaming(src, {n: f})
                    if new and new != src:
                        out.append((new, {n: f}))
            continue
        if n != n.lower() or len(n) < 4 or not n[0].isalpha() or n[:2] in ("g_", "s_", "t_", "u_", "e_") or n.upper() == guard:
            continue
        lt = [line_text(src, a).lstrip() for (t, (a, b)) in tw if t[0] == "IDENTIFIER" and t[3] == n]
        if any(l.startswith("#") and l.lstrip("# \t").startswith("include") for l in lt):
            continue
        forms = [n[:-2] + e for e in ("_t", "_s", "_e", "_u", "_p")] + [k + n[len(k):] for k in ("if", "do", "int", "for") if len(k) < len(n)]
        for f in forms:
            if f not in used and f != n:
                new = apply_renaming(src, {n: f})
                if new and new != src:
                    out.append((new, {n: f}))
    return out


def renaming(src, name, rng, keywords):
    """returns the renamed source or None; renames every IDENTIFIER token consistently except the
    specially treated names, names on #include lines and the header's own guard symbol"""
    tw = tokens_with_spans(src)
    if tw is None:
        return None
    guard = name.upper().replace(".", "_")
    names = set()
    keep = set(SPECIAL_NAMES)
    for (t, (a, b)) in tw:
        if t[0] == "IDENTIFIER":
            lt = line_text(src, a).lstrip()
            if lt.startswith("#") and "include" in lt.split("include")[0] + "include" and lt.lstrip("# \t").startswith("include"):
                keep.add(t[3])
            names.add(t[3])
    names -= keep
    names.discard(guard)
    # the guard symbol in any case variant is compared with the file name: keep it
    names = {n for n in names if n.upper() != guard}
    if not names:
        return None
    mapping = {}
    used = set(keep) | set(keywords) | {guard}
    for n in sorted(names):
        for _ in range(50):
            m = name_class_rename(n, rng)
            if m not in used and m not in names and m.upper() != guard and m not in mapping.values():
                mapping[n] = m
                used.add(m)
                break
        else:
            mapping[n] = n
    out = []
    prev = 0
    for (t, (a, b)) in tw:
        out.append(src[prev:a])
        if t[0] == "IDENTIFIER" and t[3] in mapping and src[a:b] == t[3]:
            out.append(mapping[t[3]])
        else:
            out.append(src[a:b])
        prev = b
    out.append(src[prev:])
    return "".join(out), mapping


# ---------------------------------------------------------------- C17: same-width replacement

CODE = "abcxyzABZ019 ;,(){}[]+-*/=<>!&|?:#_.%"
CLASSES = ["\f", "a\f", "\x85\u2028", "abcdefghijklmnopqrstuvwxyz", "ABCDEFGHIJKLMNOPQRSTUVWXYZ", "0123456789", ";{}()+-=,", ";", "return(n);", " ", "a ", "_", "x"]
ALT_SPELLINGS = ["<:", ":>", "<%", "%>", "%:", "??<", "??>", "??(", "??)", "??=", "??!", "??-", "%:%:"]


def swap_one(src, rng, header_lines=0):
    """replace the text inside one comment (outside the 42 header) or one string / character
    literal (outside #include) by code-like text of the same width; returns (new, what) or None"""
    tw = tokens_with_spans(src)
    if tw is None:
        return None
    want_all = isinstance(header_lines, tuple)
    if want_all:
        header_lines = header_lines[0]
    cands = []
    for (t, (a, b)) in tw:
        ty = t[0]
        raw = src[a:b]
        if "\\" in raw or "\t" in raw or "\n" in raw:
            continue
        ln = line_of_offset(src, a)
        if ty in ("COMMENT", "MULT_COMMENT") and ln <= header_lines:
            continue
        if ty == "COMMENT" and raw.startswith("//") and len(raw) > 2:
            cands.append((a + 2, b, "'\"", "comment"))
        elif ty == "MULT_COMMENT" and raw.startswith("/*") and raw.endswith("*/") and len(raw) > 4:
            cands.append((a + 2, b - 2, "'\"", "block"))
        elif ty == "STRING" and raw.endswith('"') and raw.count('"') == 2:
            lt = line_text(src, a).lstrip("# \t")
            if lt.startswith("include"):
                continue
            q = raw.index('"')
            if b - 1 > a + q + 1:
                cands.append((a + q + 1, b - 1, "'", "string"))
        elif ty == "CHAR_CONST" and raw.endswith("'") and raw.count("'") == 2:
            q = raw.index("'")
            if b - 1 == a + q + 2:
                cands.append((a + q + 1, b - 1, '"', "char"))
            elif b - 1 > a + q + 2:
                # several characters between the quotes: not one character, whatever they are
                cands.append((a + q + 1, b - 1, '"', "char-multi"))
    if not cands:
        return None
    if want_all:
        return cands
    a, b, extra, what = rng.choice(cands)
    alphabet = CODE + extra
    # the text of ANOTHER comment or literal of the same file that has the same width (the two then read alike)
    if rng.random() < 0.3:
        same = [src[a2:b2] for (a2, b2, e2, w2) in cands if (a2, b2) != (a, b) and b2 - a2 == b - a and src[a2:b2] != src[a:b]
                and "*/" not in src[a2:b2] and "\\" not in src[a2:b2] and not (what == "string" and '"' in src[a2:b2])
                and not (what in ("char", "char-multi") and "'" in src[a2:b2]) and not src[a2:b2].endswith(("*", "?"))]
        if same:
            new = rng.choice(same)
            return src[:a] + new + src[b:], {"what": what, "old": src[a:b], "new": new, "line": line_of_offset(src, a)}
    while True:
        new = "".join(rng.choice(alphabet) for _ in range(b - a))
        # boundary shapes that matter to a lexer looking for the closing delimiter
        if rng.random() < 0.35 and len(new) >= 3:
            suf = rng.choice(["??", "?", "/", "*", "(", "{", ";", "?:", "%", "<", ":"])
            new = new[:len(new) - len(suf)] + suf
        if rng.random() < 0.2 and len(new) >= 3:
            pre = rng.choice(["/", "*", "#", "{", "??", "<", ":"])
            new = pre + new[len(pre):]
        # alternative spellings inside the text: digraphs and trigraphs (not `??/`, which is a backslash)
        if rng.random() < 0.4 and len(new) >= 4:
            for _ in range(rng.randint(1, 3)):
                sp = rng.choice(ALT_SPELLINGS)
                if len(sp) < len(new):
                    k = rng.randrange(len(new) - len(sp) + 1)
                    new = new[:k] + sp + new[k + len(sp):]
        # one character class only: a rule that looks for "a word", "a blank", "a lower-case letter" in the
        # text sees a different answer although nothing but the text changed
        if rng.random() < 0.3:
            cls = rng.choice(CLASSES)
            new = "".join(rng.choice(cls) for _ in range(b - a))
        if "??/" in new or "\\" in new or (what == "string" and '"' in new) or (what in ("char", "char-multi") and "'" in new):
            continue
        if what in ("char", "char-multi") and new.endswith("??"):
            continue        # `??'` would be the trigraph for `^`: the closing quote would be gone
        if what == "block" and ("*/" in new or new.endswith("*") and False or "/*" in new and False):
            continue
        if what == "block" and (new.endswith("*") or new.startswith("/") and False):
            # `...**/` would still close; `/*/` corner: keep a blank before the closer
            new = new[:-1] + " "
        if what == "comment" and False:
            continue
        break
    return src[:a] + new + src[b:], {"what": what, "old": src[a:b], "new": new, "line": line_of_offset(src, a)}


def class_swaps(src, rng, header_lines=0):
    """every candidate (comment / string / character constant) x every character class: the text is replaced
    by text of one class only (lower-case, upper-case, digits, punctuation, words with blanks)"""
    cands = swap_one(src, rng, header_lines=(header_lines, "all"))
    out = []
    for a, b, extra, what in cands or []:
        for cls in ("abcdefghijklmnopqrstuvwxyz", "ABCDEFGHIJKLMNOPQRSTUVWXYZ", "0123456789", ";{}()+-=,", "ab ", "\f\v\x85"):
            new = "".join(rng.choice(cls) for _ in range(b - a))
            if what == "char" and new == " " and False:
                continue
            if new != src[a:b]:
                out.append((src[:a] + new + src[b:], {"what": what, "old": src[a:b], "new": new, "line": line_of_offset(src, a)}))
    return out


SHAPES_SUFFIX = ["??", "?", "/", "*", "(", "{", ";", "?:", "%", "<", ":", "??/"[:2], "'", '"']
SHAPES_PREFIX = ["/", "*", "#", "{", "??", "<", ":", "//", "/*"]


def shaped_swaps(src, rng, header_lines=0):
    """for one candidate of each kind, every boundary shape (text ending / starting with the
    characters a delimiter-seeking lexer could trip over)"""
    cands = swap_one(src, rng, header_lines=(header_lines, "all"))
    if not cands:
        return []
    out = []
    by_kind = {}
    for c in cands:
        by_kind.setdefault(c[3], []).append(c)
    for what, cs in by_kind.items():
        a, b, extra, _ = rng.choice(cs)
        n = b - a
        own = {"string": '"', "char": "'", "char-multi": "'"}.get(what, "")
        base = "".join(rng.choice("abcxyz019 ;,(){}+-=&|_.") for _ in range(n))
        for suf in SHAPES_SUFFIX:
            if own and own in suf or len(suf) >= n:
                continue
            new = base[: n - len(suf)] + suf
            if what == "block" and ("*/" in new):
                continue
            if what in ("char", "char-multi") and new.endswith("??"):
                continue
            out.append((src[:a] + new + src[b:], {"what": what, "old": src[a:b], "new": new, "line": line_of_offset(src, a)}))
        for pre in SHAPES_PREFIX:
            if len(pre) >= n:
                continue
            new = pre + base[len(pre):]
            if what == "block" and ("*/" in new):
                continue
            out.append((src[:a] + new + src[b:], {"what": what, "old": src[a:b], "new": new, "line": line_of_offset(src, a)}))
    return out
