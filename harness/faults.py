"""Token-level fault family for C05/C07: token prefixes and bounded token edits of programs."""
import random

import lexcorr as L
import oracle_lex as O

VOCAB = ["(", ")", "{", "}", ";", ",", "*", "=", "int", "x", "1", "\"s\"", "#", "\n", " ", "\t", "?", ":", "[", "]",
         "return", "if", "while", "else", "typedef", "struct", "void", "->", ".", "&", "-", "+", "'c'", "//c", "/*c*/",
         "define", "include", "static", "const", "sizeof", "enum", "union", "for", "goto", "<", ">", "...", "@"]


def token_spans(src):
    """raw (start, end) of every token of the real lexer, via the independent scanner"""
    from impl import lex_impl
    i = lex_impl(src)
    if i.get("exc"):
        return None
    vp = L.visual_positions(src)
    sp = O.spellings()
    spans = []
    cur = 0
    for ty, line, col, value in i["tokens"]:
        text = value if value is not None else sp.get(ty)
        cur = O.skip_splices(src, cur)
        end, why = O.walk(src, cur, text, vp, ty)
        if end is None:
            return None
        spans.append((cur, end))
        cur = end
    return spans


def variants(src, rng, n, prefixes=True):
    """up to n (kind, text) variants of src"""
    spans = token_spans(src)
    if not spans:
        return []
    pieces = [src[a:b] for a, b in spans]
    out = []
    k = len(pieces)
    kinds = ["prefix", "delete", "insert", "replace", "swap"]
    for _ in range(n):
        kind = rng.choice(kinds)
        i = rng.randrange(k)
        p = list(pieces)
        if kind == "prefix":
            p = p[:i]
        elif kind == "delete":
            del p[i]
        elif kind == "insert":
            p.insert(i, rng.choice(VOCAB))
        elif kind == "replace":
            p[i] = rng.choice(VOCAB)
        elif kind == "swap" and i + 1 < k:
            p[i], p[i + 1] = p[i + 1], p[i]
        out.append((f"{kind}@{i}", "".join(p)))
    return out


def _run(args):
    from impl import pipeline
    name, src, timeout = args
    r = pipeline(name, src, timeout=timeout)
    return r["outcome"], r.get("msg")


def run_many(cases, timeout=10.0, procs=None):
    """cases: list of (name, src) -> list of (outcome, msg)"""
    import multiprocessing as mp
    args = [(n, s, timeout) for n, s in cases]
    if len(args) < 200:
        return [_run(a) for a in args]
    procs = procs or min(16, mp.cpu_count())
    out = []
    hangs = 0
    step = procs * 64
    with mp.Pool(procs) as pool:
        for i in range(0, len(args), step):
            if hangs >= 4:
                # enough runs that do not end: the verdict is settled, do not wait for thousands of watchdogs
                out += [("skipped", None)] * (len(args) - i)
                break
            part = pool.map(_run, args[i:i + step], chunksize=8)
            # a stalled worker is not a hanging input: believe it only after a second, generous try here
            for k, (o, m) in enumerate(part):
                if str(o).startswith("hang") and hangs < 4:
                    o2 = _run((args[i + k][0], args[i + k][1], 30.0))
                    part[k] = o2
                    hangs += str(o2[0]).startswith("hang")
            out += part
    return out


SNIPPETS = [
    "a = b ? c : d;", "return (a < 0 ? -a : a);", "x = (a ? b : c) + 1;", "for (i = 0; i < n; i++)\n\t\tx++;", "switch (a)\n\t{\n\t\tcase 1:\n\t\t\tbreak ;\n\t}",
    "goto end;", "end:\n\treturn ;", "do\n\t{\n\t\ta++;\n\t}\twhile (a);", "while (a[i++])\n\t\t;", "if (a)\n\t\tb = 1;\n\telse if (c)\n\t\tb = 2;\n\telse\n\t\tb = 3;",
    "a = (int)b * sizeof(t_x *);", "f(a, (b), &c, *d, e[1].g->h);", "int\t\ta[3] = {1, 2, 3};", "static const char\t*s = \"x\";", "t_x\t\t**p;", "struct s_a\tv;",
    "enum e_a\n\t{\n\t\tA,\n\t\tB\n\t};", "union\n\t{\n\t\tint\ta;\n\t}\tu_x;", "int\t\t(*fp)(int, char *);", "x = (*fp)(a, a * *b);", "a->b.c[d] += -e-- << 2;", "*p++ = !~-+a;",
    "typedef struct s_x\n{\n\tint\ta;\n}\tt_x;", "typedef int\t(*t_f)(void);", "#define A 1", "#define F(x) (x)", "#include <a.h>", "#include \"b.h\"", "#if defined(A) && A > 1\n# define B 2\n#elif 0\n#else\n#endif",
    "#ifndef X_H\n# define X_H\n#endif", "# pragma once", "#undef A", "#error \"x\"", "int\tf(int a, char **b);", "static inline void\t*g(void) __attribute__((noreturn));",
    "int\tmain(int argc, char **argv)\n{\n\treturn (0);\n}", "// comment", "/* comment */", "/*\n** multi\n*/", "char\tc = 'a';", "x = \"a\" \"b\";", "extern char\t**environ;",
    "return ;", "break ;", "continue ;", "(void)a;", "a = b = c;", "a, b;", "{\n\t}", ";", "a[0] = sizeof a;", "x = y * *z * (t_a)w;", "if (!(a = f()))\n\t\treturn (NULL);",
]


def snippet_prefixes():
    """every token prefix of every snippet, at file level and inside a function body,
    with and without a trailing newline: 'the input ends in the middle of X' for every X"""
    out = []
    for sn in SNIPPETS:
        for ctx in ("%s", "int\tf(void)\n{\n\t%s"):
            full = ctx % sn
            body_start = len(ctx) - 2
            spans = token_spans(full)
            if not spans:
                continue
            for a, b in spans:
                if b <= body_start:
                    continue
                out.append(("prefix", full[:b]))
                if full[b:b + 1] != "\n":
                    out.append(("prefix+nl", full[:b] + "\n"))
            out.append(("full", full + "\n}\n" if ctx != "%s" else full + "\n"))
    return out


def snippet_deletions():
    """every snippet with one token left out (every position), at file level and inside a function
    body: 'one word of X is not typed yet' for every X"""
    out = []
    for sn in SNIPPETS:
        for ctx, tail in (("%s", "\n"), ("int\tf(void)\n{\n\t%s", "\n}\n")):
            full = ctx % sn
            body_start = len(ctx) - 2
            spans = token_spans(full)
            if not spans:
                continue
            for a, b in spans:
                if a < body_start or full[a:b] in (" ", "\t", "\n"):
                    continue
                out.append(("delete", full[:a] + full[b:] + tail))
    return out


# white space that is not blank, tab or newline (str.isspace), signs a decoder can leave behind
EXOTIC = ["\f", "\v", "\r", "\r\n", "\x1c", "\x1f", "\x85", "\xa0", "\u2028", "\u3000", "\ufeff", "\x00", "\x7f", "\u200b"]

SOUP = ["int", "char", "\t", " ", "a", "b", ",", ";", "(", ")", "{", "}", "\n", "*", "=", "1", "[", "]", "#define", "#if", "#endif", "if", "else",
        "return", "struct", "typedef", "\"s\"", "?", ":", "->", "while", "static", "/* c */", "// c", "enum", "&&", "-", "sizeof", "#include",
        "<a.h>", "...", "t_x", "'c'", "const", "void", "+", "++", "do", "goto", "union", "#ifndef", "#ifdef", "#undef", "#else", "#elif",
        "NULL", "inline", "defined", "long", "unsigned", "case", "default", "for", "switch", ".", "__attribute__", "register", "extern"]


def soup(rng, maxlen_exhaustive, nsample, maxlen_sample):
    """token soup: every sequence of up to `maxlen_exhaustive` lexemes of SOUP (a type name is followed
    by a tab so that words do not glue), plus `nsample` random longer ones; file level and function body"""
    import itertools
    out = []

    def render(seq):
        txt = ""
        for w in seq:
            if txt and (txt[-1].isalnum() or txt[-1] == "_") and (w[0].isalnum() or w[0] == "_"):
                txt += " "
            txt += w
        return txt
    for n in range(1, maxlen_exhaustive + 1):
        for seq in itertools.product(SOUP, repeat=n):
            out.append(render(seq))
    for _ in range(nsample):
        out.append(render([rng.choice(SOUP) for _ in range(rng.randint(maxlen_exhaustive + 1, maxlen_sample))]))
    res = []
    # the same with a character no C token starts with, at every gap of a few of them
    for t in out[:: 11]:
        ws = [i for i, ch in enumerate(t) if ch in " \t\n"] or [0]
        k = rng.choice(ws)
        x = rng.choice(EXOTIC)
        res.append(("soup-exotic", t[:k] + x + t[k:]))
    for x in EXOTIC:
        res.append(("exotic", "int\ta;" + x + "\nint\tb;\n"))
        res.append(("exotic", x))
        res.append(("exotic-body", "int\tf(void)\n{\n\treturn (0);" + x + "\n}\n" + x + "\nint\tg(void);\n"))
    for t in out:
        res.append(("soup", t))
    for t in out[:: 7]:
        res.append(("soup-body", "int\tf(void)\n{\n\t" + t))
        res.append(("soup-nl", t + "\n"))
    return res


def dictionary_words():
    """the code's own vocabulary as an adversarial dictionary: every name defined in norminette's sources and what is
    left of it after each of its underscore-separated prefixes is cut off (a handler looked up as `prefix_<word>`
    answers to <word>), plus every other identifier and string-like word of the sources.  Returns (names, others)."""
    import os, re
    from impl import REPO
    defs, others = set(), set()
    for root, _, fs in os.walk(os.path.join(REPO, "norminette")):
        for f in fs:
            if not f.endswith(".py"):
                continue
            text = open(os.path.join(root, f), encoding="utf-8", errors="replace").read()
            for m in re.finditer(r"\bdef\s+([A-Za-z_][A-Za-z_0-9]*)|\bclass\s+([A-Za-z_][A-Za-z_0-9]*)", text):
                name = m.group(1) or m.group(2)
                parts = name.strip("_").split("_")
                for k in range(len(parts)):
                    w = "_".join(parts[k:])
                    if w:
                        defs.add(w)
            for w in re.findall(r"[A-Za-z_][A-Za-z_0-9]*", text):
                others.add(w)
    return sorted(defs), sorted(others - defs)


def dictionary_cases(rng, n_other):
    """(kind, text): each word as a directive name (outside and inside a conditional, both spellings of `#`), as a
    macro, as an identifier in a statement and as a label"""
    defs, others = dictionary_words()
    words = defs + rng.sample(others, min(n_other, len(others)))
    out = []
    for w in words:
        out.append(("dict-directive", "#%s\n" % w))
        out.append(("dict-directive-in-if", "#ifdef A\n# %s x\n#endif\n" % w))
        if rng.random() < 0.25:
            out.append(("dict-directive-digraph", "%%:%s\n" % w.upper()))
            out.append(("dict-macro", "#define %s(%s) #%s\n" % (w.upper(), w, w)))
            out.append(("dict-statement", "int\tf(int %s)\n{\n\t%s = %s(%s);\n%s:\n\treturn (%s);\n}\n" % (w, w, w, w, w, w)))
    return out
