"""C05 — every input gets an answer: no hang, no internal error."""
import random

import families
import faults
import lexcorr as L
from props import lexcommon

LEVEL_NOTE = [
    "part (a) tokenizer: theorem C05.lex_total about Model/Lexer.lean, tied by the `lex` correspondence (exception status) and the regenerated operator table / parser order / pattern texts (C05.operator_keys, parsers_order, patterns_unchanged)",
    "part (b) rule level: C05.checkSpacing_terminates — the loop of the completely ported CheckSpacing ends by its own condition on every token list",
    "part (b) pipeline: the engine loop terminates for every rule table once each rule call returns (Registry.run raises on a zero jump; see DESIGN §4.5); totality of the individual rules is NOT proved — it is searched: token prefixes and bounded token edits of conforming / violating programs and of the repository samples, each run under a watchdog, failures keyed by signature",
    "A8 CPython recursion limit: inputs nested deeper than ~1000 levels are outside the generated families",
]
PARTIAL = [
    "C05_pipeline_partial: rule-level totality is an assumption for every rule (none ported yet); it is searched, and the 13 crash/hang sites the search found were repaired in /repo (known_findings.json: fixed)",
]


def proj(r):
    return {"exc": (r.get("exc") or None) and r["exc"].split("@")[0].replace("crash:", ""), "tokens": [], "diags": []}


def run(res, tier, br, model_ok=True, search=False):
    dis = lexcommon.run_lex(res, tier, want=("C05",), model_ok=model_ok, proj=proj)
    lexcommon.handle_disagreements(res, dis, ("C05",), proj, "termination / exception status")
    rng = random.Random(res.seed + 29)
    big = tier == "thorough" or search
    progs = families.programs(rng, 120 if big else 14)
    viol = families.violating(rng, progs[: (60 if big else 8)], per_prog=2)
    samples = families.repo_samples()
    bases = [(p.name, p.text) for p in progs] + [(p.name, t) for p, op, site, t, line in viol]
    bases += samples if big else rng.sample(samples, 10)
    bases += [("lex%d.c" % i, s) for i, s in enumerate(families.LEXICAL_SNIPPETS)]
    cases = [(n, s, "base") for n, s in bases]
    per = 60 if big else 22
    for n, s in bases:
        for kind, text in faults.variants(s, rng, per):
            cases.append((n, text, kind))
            if rng.random() < 0.15:
                cases.append((n.replace(".c", ".h") if n.endswith(".c") else n.replace(".h", ".c"), text, kind + "/othertype"))
    for kind, text in faults.snippet_prefixes():
        cases.append(("snip.c", text, "snippet-" + kind))
        if big:
            cases.append(("snip.h", text, "snippet-" + kind))
    for kind, text in faults.snippet_deletions():
        cases.append(("snip.c", text, "snippet-" + kind))
        if big or rng.random() < 0.3:
            cases.append(("snip.h", text, "snippet-" + kind))
    for kind, text in faults.dictionary_cases(rng, 1500 if big else 150):
        cases.append(("dict.c", text, kind))
        if big or rng.random() < 0.2:
            cases.append(("dict.h", text, kind + "/h"))
    for kind, text in faults.soup(rng, 2, 120000 if big else 6000, 7):
        cases.append(("soup.c", text, kind))
        if rng.random() < (0.3 if big else 0.5):
            cases.append(("soup.h", text, kind + "/h"))
    outs = faults.run_many([(n, s) for n, s, k in cases], timeout=10.0)
    kinds = {}
    for (n, s, k), (o, m) in zip(cases, outs):
        res.count("pipeline", 1)
        kk = k.split("@")[0]
        kinds[kk] = kinds.get(kk, 0) + 1
        if o == "fatal" or k != "base":
            res.nontriv(("p", s))
        if o not in ("ok", "fatal", "skipped"):
            res.report(o, f"{n} ({k}): the run ends with {o} instead of a verdict or a fatal diagnostic",
                       {"kind": "pipeline", "name": n, "src": s, "observed": o})
    res.streams["pipeline"]["edit_kinds"] = kinds
    res.streams["pipeline"]["outcomes"] = {"ok": sum(1 for o, _ in outs if o == "ok"), "fatal": sum(1 for o, _ in outs if o == "fatal")}
    res.sample({"pipeline": cases[len(bases) + 3][1][-200:]})
    # the CLI itself: a fatal file gives one line and a non-zero status, undecodable bytes too
    cli_checks(res)


def cli_checks(res):
    import os, shutil, tempfile
    from impl import run_cli
    d = tempfile.mkdtemp(prefix="verif_c05_")
    try:
        files = {"trunc.c": b"int\tmain(void)\n{\n\treturn (", "latin1.c": b"int a\xe9;\n", "junk.c": b") )\n",
                 "hash.c": b"#foo\n", "empty.c": b"", "nul.c": b"int\x00a;\n", "bom.c": b"\xef\xbb\xbfint\ta;\n"}
        for nm, data in files.items():
            open(os.path.join(d, nm), "wb").write(data)
            out = run_cli([nm], d, timeout=30)
            res.count("cli", 1)
            ok = (not out["hang"]) and "Traceback" not in out["stderr"] and out["exit"] in (0, 1)
            if ok and out["exit"] == 1 and "Error!" not in out["stdout"]:
                ok = False
            if not ok:
                sig = "hang@cli" if out["hang"] else "crash:cli-traceback:" + (out["stderr"].strip().split("\n")[-1].split(":")[0] if out["stderr"] else "?")
                res.report(sig, f"CLI on {nm}: exit {out['exit']}, stderr {out['stderr'][-200:]!r}",
                           {"kind": "cli-bytes", "name": nm, "bytes_hex": data.hex()})
            # the same file found through a directory argument (relative and absolute)
            sub = os.path.join(d, "dir_" + nm.split(".")[0])
            os.makedirs(os.path.join(sub, "in"))
            open(os.path.join(sub, "in", nm), "wb").write(data)
            for arg in (".", sub):
                out = run_cli([arg], sub, timeout=30)
                res.count("cli", 1, directory=1)
                ok = (not out["hang"]) and "Traceback" not in out["stderr"] and out["exit"] in (0, 1)
                if not ok:
                    sig = "hang@cli" if out["hang"] else "crash:cli-traceback:" + (out["stderr"].strip().split("\n")[-1].split(":")[0] if out["stderr"] else "?")
                    res.report(sig, f"CLI on a directory holding {nm}: exit {out['exit']}, stderr {out['stderr'][-200:]!r}",
                               {"kind": "cli-bytes", "name": nm, "bytes_hex": data.hex(), "directory": True})
    finally:
        shutil.rmtree(d, ignore_errors=True)


def replay(rp):
    from impl import pipeline, lex_impl
    if rp.get("kind") == "lex":
        i = lex_impl(rp["src"])
        print("source:", repr(rp["src"][:300])); print("observed:", i.get("exc") or "tokens ok")
        return 1 if i.get("exc") else 0
    if rp.get("kind") == "pipeline":
        r = pipeline(rp["name"], rp["src"])
        print("source (tail):", repr(rp["src"][-300:])); print("observed:", r["outcome"], r.get("msg"), r.get("trace", "")[-400:])
        return 0 if r["outcome"] in ("ok", "fatal") else 1
    if rp.get("kind") == "cli-bytes":
        import core
        res = core.Result("C05", "replay", 0)
        cli_checks(res)
        for v in res.violations:
            print("VIOLATED", v[0], v[1])
        return 1 if res.violations else 0
    print("replay names a broken obligation/correspondence:", rp.get("broken"))
    return 1


def reproduce(res, k):
    from impl import pipeline
    if k.get("input") is None:
        return
    r = pipeline(k.get("input_name") or "x.c", k["input"])
    if r["outcome"] not in ("ok", "fatal"):
        res.report(r["outcome"], "recorded input of a listed finding", {"kind": "pipeline", "name": k.get("input_name"), "src": k["input"]})
