"""C13 — the 42 header is recognised exactly."""
import re
import random

import families
from core import Driver, cps
from gen import header, grammar

LEVEL_NOTE = [
    "theorems C13.header_matches / accept / at_most_once / reject_no_header are about Generated.headerRegex — the pattern CheckHeader.check_header compiles, captured and translated on every run (obligation pattern_shape: frame, filler, filler, file-name line, filler, By, filler, Created, Updated, filler, frame; pattern_flags: DOTALL) — and about Model/Header.lean, the three-flag state machine of CheckHeader.run, for EVERY well-formed header (any file name, login, e-mail, stamps, art) and every continuation",
    "file level, for every rule table (C13.at_most_once_file / reject_file / accept_file / headerDiags_length): CheckHeader runs after every matched primary and reads of a statement only whether the primary was IsComment and its first token, so over a whole file it is the state machine over the statements of the engine's trace; tie: `always` stream (source -> model lexer -> engine replaying the observed decisions -> model CheckHeader with the NFA on the regenerated pattern, compared with what the real CheckHeader emitted, position included)",
    "A2: `re.search` finds a match whenever the declarative semantics has one (the search function is a parameter of the theorems); validated by comparing re.search with the model's NFA on headers, mutated headers and near-misses",
    "tie: `hdr` (regex) and `hdrrun` (state machine fed with the statements of the observed engine trace) correspondences + the header oracle on the real pipeline",
]
PARTIAL = [
    "C13_reject for the mutations inside the header (M6–M23, M25) is decided by the oracle and the regex correspondence, not by a theorem (rejection needs inversion lemmas on the pattern); M1–M4 and M24 are theorem reject_no_header",
    "known corner: with login `by` a header whose date and time are glued still matches (`Created: <datetime> by by`); the generator never draws that login",
]


def events_of(name, src):
    """the statements as CheckHeader.run sees them, from the observed engine trace"""
    from trace import run_traced
    from impl import lex_impl
    tr = run_traced(name, src)
    if tr["outcome"] not in ("ok", "fatal") or tr["n"] is None:
        return None, tr
    toks = lex_impl(src)["tokens"]
    evs = []
    for it in tr["iterations"]:
        if it["decision"] is None:
            continue
        t0 = toks[it["start"]]
        evs.append([it["decision"][0] == "IsComment", cps(t0[3]) if t0[0] == "MULT_COMMENT" else None])
    return evs, tr


def whole_file_mutations(hdr, body, rng):
    lines = hdr.split("\n")[:-1]
    out = {
        "M1_absent": body,
        "M2_code_first": "int\tg_first;\n" + hdr + body,
        "M3_empty_line_first": "\n" + hdr + body,
        "M4_line_comments": "".join("//" + l[2:-2] + "\n" for l in lines) + body,
        "M5_one_block": "/*" + "".join(l[2:-2] + "\n" for l in lines) + "*/\n" + body,
        "M24_indented": "".join(" " + l + "\n" for l in lines) + body,
    }
    return out


def run(res, tier, br, model_ok=True, search=False):
    from impl import pipeline
    from norminette.rules.check_header import CheckHeader
    rng = random.Random(res.seed + 113)
    big = tier == "thorough" or search
    progs = families.programs(rng, 40 if big else 8) + families.programs(rng, 20 if big else 5, comments=True)
    drv_reqs, drv_meta = [], []
    texts_for_regex = []
    e2e = []
    entry = []
    for p in progs:
        fields = header.random_fields(rng)
        hdr = header.header42(p.name, **fields)
        old = header.header42(p.name)
        body = p.text[len(old):] if p.text.startswith(old) else "\n" + p.text
        variants = [("valid", hdr + body, 0),
                    ("valid+line-comment-later", hdr + body + "\n// a note\nint\tg_zz;\n", 0),
                    ("valid+comment-in-function", hdr + body + "\nint\tzz_f(void)\n{\n\t// why\n\treturn (0);\n}\n", 0)]
        if rng.random() < 0.5:
            variants.append(("valid+block-comment-after", hdr + "/* extra */\n" + body, 0))
        for mname, fn in header.HEADER_MUTATIONS.items():
            if big or rng.random() < 0.3:
                try:
                    variants.append((mname, fn(hdr) + body, 1))
                    # the damaged block followed directly by a comment that cannot belong to a header
                    if rng.random() < 0.5:
                        variants.append((mname + "/line-comment-below", fn(hdr) + "// note\n" + body, 1))
                    if rng.random() < 0.3:
                        variants.append((mname + "/indented-comment-below", fn(hdr) + "\t/* note */\n" + body, 1))
                except Exception:
                    pass
        for mname, text in whole_file_mutations(hdr, body, rng).items():
            if big or rng.random() < 0.5:
                variants.append((mname, text, 1))
        for vname, text, want in variants:
            r = pipeline(p.name, text)
            res.count("header", 1, **{("valid" if want == 0 else "mutated"): 1})
            res.nontriv((vname, text[:900]))
            rp = {"kind": "header", "name": p.name, "variant": vname, "src": text, "expected": want}
            if r["outcome"] != "ok":
                if want == 0:
                    res.report("header:valid-not-analysed", f"{p.name} with a valid header: outcome {r['outcome']}", rp)
                continue
            n = sum(1 for d in r["diags"] if d[0] == "INVALID_HEADER")
            if n != want:
                sig = "header:valid-rejected" if want == 0 else ("header:mutation-accepted" if n == 0 else "header:reported-twice")
                res.report(sig, f"{p.name} [{vname}]: {n} INVALID_HEADER, expected {want}", rp)
            if model_ok:
                evs, tr = events_of(p.name, text)
                if evs is not None:
                    drv_reqs.append({"op": "hdrrun", "events": evs})
                    drv_meta.append((vname, n, rp))
            texts_for_regex.append(text[:1200])
            e2e.append((p.name, text))
            entry.append((p.name, vname, text, want))
    # the same through the command line, the text stored in a file and passed inline: reported exactly as often
    cli_entries(res, rng, entry, 60 if big else 18)
    # the regex itself: re.search vs the model's NFA on header texts and near-misses
    pat = None
    import norminette.rules.check_header as CH
    captured = {}
    real = re.compile
    from unittest import mock

    def fake(pattern, flags=0):
        captured["rx"] = real(pattern, flags)
        return captured["rx"]

    class Ctx:
        header = ""
        def peek_token(self, i): return None
        def new_error(self, *a, **k): pass
    with mock.patch("re.compile", fake):
        CheckHeader.check_header(CheckHeader.__new__(CheckHeader, Ctx()), Ctx())
    rx = captured["rx"]
    near = []
    for t in texts_for_regex[:60 if big else 15]:
        near.append(t)
        for _ in range(4):
            i = rng.randrange(min(len(t), 900))
            near.append(t[:i] + rng.choice([" ", "*", "/", "\n", "x", ""]) + t[i + 1:])
    if model_ok and near:
        rep = Driver().batch([{"op": "hdr", "text": cps(t)} for t in near])
        nbad = 0
        for t, m in zip(near, rep):
            res.count("regex", 1)
            res.traces_validated += 1
            if "error" in m or m["search"] != (rx.search(t) is not None):
                nbad += 1
                first = t
        if nbad:
            res.broken.append(f"correspondence hdr (re.search vs model NFA on the regenerated pattern): {nbad} disagreements, e.g. {first[:120]!r}")
    if model_ok and e2e:
        import alwayscorr
        alwayscorr.check(res, e2e[:: (1 if big else 3)])
    if model_ok and drv_reqs:
        rep = Driver().batch(drv_reqs)
        nbad, first = 0, None
        for (vname, n, rp), m in zip(drv_meta, rep):
            res.traces_validated += 1
            if "error" in m or m["errors"] != n:
                nbad += 1
                first = first or (vname, n, m)
        if nbad:
            res.broken.append(f"correspondence hdrrun (state machine): {nbad} disagreements, e.g. {first}")
    res.sample({"header": header.header42("x.c", **header.random_fields(rng)).split("\n")[3:9]})


def count_cli(name, text, how, d):
    import os, json
    from impl import main_inprocess
    if how.startswith("file"):
        # the header is looked for whatever the other options are
        extra = {"file": [], "file-R": ["-R", "CheckDefine"], "file-R2": ["-R", "Foo", "--no-colors"], "file-o": ["-o"]}[how]
        open(os.path.join(d, name), "w").write(text)
        out = main_inprocess(extra + ["-f", "json", name], d)
    else:
        out = main_inprocess(["-f", "json", "--hfile" if name.endswith(".h") else "--cfile", text, "--filename", name], d)
    jl = [l for l in out["stdout"].split("\n") if l.startswith("{")]
    if out.get("exc") or not jl:
        return None, out
    doc = json.loads(jl[-1])
    return sum(1 for f in doc["files"] for e in f["errors"] if e["name"] == "INVALID_HEADER"), out


def cli_entries(res, rng, entry, n):
    import shutil, tempfile
    whole = [e for e in entry if e[1].startswith(("M1_", "M2_", "M3_", "M24_"))]
    pick = rng.sample(whole, min(len(whole), n // 3)) + rng.sample(entry, min(len(entry), n - n // 3))
    d = tempfile.mkdtemp(prefix="verif_c13_")
    try:
        for name, vname, text, want in pick:
            for how in ("file", "inline", rng.choice(["file-R", "file-R", "file-R2", "file-o"])):
                got, out = count_cli(name, text, how, d)
                res.count("header.cli", 1)
                if got is None:
                    continue        # fatal parse error or no report: not analysed to a verdict
                if got != want:
                    sig = "header:valid-rejected" if want == 0 else ("header:mutation-accepted" if got == 0 else "header:reported-twice")
                    res.report(sig, f"{name} [{vname}] through the command line ({how}): {got} INVALID_HEADER, expected {want}",
                               {"kind": "header-cli", "name": name, "variant": vname, "src": text, "expected": want, "how": how})
    finally:
        shutil.rmtree(d, ignore_errors=True)


def replay(rp):
    from impl import pipeline
    if rp.get("kind") == "header-cli":
        import shutil, tempfile
        d = tempfile.mkdtemp(prefix="verif_c13r_")
        try:
            got, out = count_cli(rp["name"], rp["src"], rp["how"], d)
        finally:
            shutil.rmtree(d, ignore_errors=True)
        print("variant:", rp["variant"], "entry:", rp["how"], "INVALID_HEADER x", got, "expected", rp["expected"])
        print(rp["src"][:600])
        return 0 if got == rp["expected"] else 1
    if rp.get("kind") != "header":
        print("replay names a broken obligation/correspondence:", rp.get("broken"))
        return 1
    r = pipeline(rp["name"], rp["src"])
    n = sum(1 for d in r["diags"] if d[0] == "INVALID_HEADER")
    print("variant:", rp["variant"], "outcome:", r["outcome"], "INVALID_HEADER x", n, "expected", rp["expected"])
    print(rp["src"][:1100])
    return 0 if (r["outcome"] == "ok" and n == rp["expected"]) else 1
