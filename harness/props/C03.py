"""C03 — numeric limits are enforced exactly at their boundary."""
import random

import families
from core import Driver
from gen import header

LEVEL_NOTE = [
    "C03.line_comment_e2e / block_comment_e2e / comment_len_sound: CheckCommentLineLen is ported completely (Model/Checks.lean commentLenDiags); for every rule table a `//` comment ending beyond column 80 and every line of a block comment wider than 80 columns is reported (at line + i, column 1), and nothing else; tie: `always` stream (PORTED in harness/alwayscorr.py)",
    "theorems C03.linelen_iff / linelen_nodup / newline_column / code_line_reported_iff / line_comment_iff / block_comment_iff / counters_exact are about Model/Limits.lean (the decision points of CheckLineLen, CheckCommentLineLen, CheckBrace, CheckFunctionsCount, CheckFuncDeclaration, CheckVariableDeclaration) and the position spec: the NEWLINE token ending a line of visual width w is at column w+1 (from C09/C19), so a code line ending in a newline is reported iff w > 80; CheckLineLen is in the `_rule` list (obligation on the regenerated registry) and every token is in exactly one statement (C07)",
    "end to end (C03.linelen_e2e / linelen_source / long_line_reported / short_lines_silent): for EVERY rule table, on every file that reaches a verdict, the lines CheckLineLen reports are exactly the lines holding a token whose first character is at a visual column beyond 81; a code line wider than 80 columns that ends in a newline token is reported wherever it is. Tie: `always` stream — source text -> model lexer -> engine loop replaying the observed rule decisions -> model CheckLineLen, compared with what the real CheckLineLen emitted",
    "tie: `linelen` / `commentlen` snapshot correspondences (every real call of the two rules is replayed through the model) + the boundary oracle below (each limit at L-3..L+6 in generated contexts)",
]
PARTIAL = [
    "that the counters (scope.lines, scope.functions, comma count, scope.vars) equal the number of body lines / functions / parameters / declarations is maintained by unported primaries and observed by the boundary oracle, not proved",
    "a last line WITHOUT a final newline that is too long only through its last token is not reported (no token starts beyond column 81): known finding diag:LINE_TOO_LONG@last-line-without-newline",
]


def observe(name, src):
    """pipeline with CheckLineLen / CheckCommentLineLen observed"""
    import io, contextlib
    from impl import watchdog, registry
    from norminette.file import File
    from norminette.lexer import Lexer
    from norminette.context import Context
    from norminette.exceptions import CParsingError
    from norminette.rules.check_line_len import CheckLineLen as A
    from norminette.rules.check_comment_line_len import CheckCommentLineLen as B
    calls = []
    oa, ob = A.run, B.run

    def ra(self, context):
        toks = [[t.pos[0], t.pos[1]] for t in context.tokens[: context.tkn_scope]]
        before = len(context.errors._inner)
        r = oa(self, context)
        new = [e.highlights[0].lineno for e in context.errors._inner[before:] if e.name == "LINE_TOO_LONG"]
        calls.append(({"op": "linelen", "toks": toks}, new))
        return r

    def rb(self, context):
        i = 0
        while context.peek_token(i) is not None and context.peek_token(i).type not in ("COMMENT", "MULT_COMMENT"):
            i += 1
        t = context.peek_token(i)
        snap = None
        if t is not None:
            first_line = t.pos[0]
            snap = {"op": "commentlen", "col": t.pos[1], "block": t.type == "MULT_COMMENT",
                    "lens": [len(x) for x in t.value.split("\n")] if t.type == "MULT_COMMENT" else [len(t.value)]}
        before = len(context.errors._inner)
        r = ob(self, context)
        if snap is not None:
            new = [e.highlights[0].lineno - first_line for e in context.errors._inner[before:] if e.name == "LINE_TOO_LONG"]
            calls.append((snap, new))
        return r
    f = File(name, src)
    A.run, B.run = ra, rb
    outcome = "ok"
    try:
        with watchdog(10), contextlib.redirect_stdout(io.StringIO()):
            registry().run(Context(f, list(Lexer(f))))
    except CParsingError:
        outcome = "fatal"
    except BaseException as e:
        outcome = "crash:" + type(e).__name__
    finally:
        A.run, B.run = oa, ob
    diags = sorted({(e.name, e.highlights[0].lineno) for e in f.errors})
    return outcome, diags, calls


def width(line):
    col = 1
    for ch in line:
        col = col + (4 - (col - 1) % 4) if ch == "\t" else col + 1
    return col - 1


def pad_to(prefix, w, fill="a"):
    """extend `prefix` with fill characters to visual width w"""
    s = prefix
    while width(s) < w:
        s += fill
    return s if width(s) == w else None


def padx(prefix, w, chars):
    """extend `prefix` to visual width w with the characters of `chars`, taken in turn"""
    s, i = prefix, 0
    while width(s) < w:
        s += chars[i % len(chars)]
        i += 1
    return s


def line_cases(rng, w):
    """a line of visual width w in several kinds/contexts: (text of the file, line number, kind)"""
    out = []
    ident = lambda n: "v" + "a" * (n - 1)
    # code line inside a function at depth 1..3, tabs before
    for depth in (1, 2, 3):
        pre = "\t" * depth + "x = "
        body = pad_to(pre, w - 1)
        if body:
            stmt = body + ";"
            opens = "".join("\t" * d + "while (x)\n" + "\t" * d + "{\n" for d in range(1, depth))
            closes = "".join("\t" * d + "}\n" for d in range(depth - 1, 0, -1))
            out.append((f"int\tf(int x)\n{{\n{opens}{stmt}\n{closes}\treturn (x);\n}}\n", 3 + 2 * (depth - 1), f"code-depth{depth}"))
    # global with tabs at odd offsets
    for lead in ("int\t", "static int\t\t", "char\t\t\t"):
        g = pad_to(lead + "g_", w - 1)
        if g:
            out.append((g + ";\n", 1, "global"))
    # `//` comment at file level and at end of a code line
    c = pad_to("// ", w, "c")
    if c:
        out.append((c + "\nint\tg_a;\n", 1, "line-comment"))
        out.append(("int\tg_a;\n" + c + "\n", 2, "line-comment-middle"))
    c2 = pad_to("int\tg_a; // ", w, "c")
    if c2:
        out.append((c2 + "\n", 1, "line-comment-eol"))
    # block comment: one line, first line, interior line, last line
    b = pad_to("/* ", w - 3, "b")
    if b:
        out.append((b + " */\nint\tg_a;\n", 1, "block-one-line"))
    b1 = pad_to("/* ", w, "b")
    if b1:
        out.append((b1 + "\n** x\n*/\nint\tg_a;\n", 1, "block-first-line"))
    bi = pad_to("** ", w, "b")
    if bi:
        out.append(("/*\n" + bi + "\n*/\nint\tg_a;\n", 2, "block-interior-line"))
        bt = pad_to("**\t", w, "b")
        if bt:
            out.append(("/*\n" + bt + "\n*/\nint\tg_a;\n", 2, "block-interior-tab"))
    bl = pad_to("** ", w - 2, "b")
    if bl:
        out.append(("/*\n** x\n" + bl + "*/\nint\tg_a;\n", 3, "block-last-line"))
    # preprocessor line, last line of the file with newline
    d = pad_to("#define AAA \"", w - 1, "s")
    if d:
        out.append((d + "\"\n", 1, "define"))
    # continuation lines: a string / a block comment / a `//` comment continued with a line splice
    # (the splice is INSIDE a token), and a splice between two tokens; the measured line is the second
    k = pad_to("", w - 2, "x")
    if k is not None:
        out.append(("char\t*g_s = \"abc\\\n" + k + "\";\n", 2, "string-continuation"))
        out.append(("char\t*g_s = \"abc??/\n" + k + "\";\n", 2, "string-continuation-trigraph"))
    k2 = pad_to("", w, "c")
    if k2 is not None:
        out.append(("// abc\\\n" + k2 + "\nint\tg_a;\n", 2, "line-comment-continuation"))
    k3 = pad_to("", w - 3, "b")
    if k3 is not None:
        out.append(("/* abc\\\n" + k3 + " */\nint\tg_a;\n", 2, "block-continuation"))
    k4 = pad_to("\t", w - 1, "1")
    if k4 is not None:
        out.append(("int\tg_v = \\\n" + k4 + ";\n", 2, "between-tokens-continuation"))
    return out


# a function definition is a function definition: storage class, return type, what sits between the
# header and the opening brace (`@` is the name)
FUNC_SHAPES = [
    ("plain", "int\t@(void)\n{\n\treturn (0);\n}\n"),
    ("static", "static int\t@(void)\n{\n\treturn (0);\n}\n"),
    ("pointer", "char\t*@(void)\n{\n\treturn (0);\n}\n"),
    ("one-comment-before-brace", "int\t@(void)\n/* c */\n{\n\treturn (0);\n}\n"),
    ("two-comments-before-brace", "int\t@(void)\n// c1\n// c2\n{\n\treturn (0);\n}\n"),
    ("directive-before-brace", "int\t@(void)\n#define X@ 1\n{\n\treturn (0);\n}\n"),
    ("brace-on-header-line", "int\t@(void) {\n\treturn (0);\n}\n"),
    ("parameters-on-two-lines", "int\t@(int a,\n\t\tint b)\n{\n\treturn (a + b);\n}\n"),
    ("struct-return", "struct s_x\t*@(void)\n{\n\treturn (0);\n}\n"),
    ("empty-line-before-brace", "int\t@(void)\n\n{\n\treturn (0);\n}\n"),
    ("long-type", "unsigned long long int\t@(void)\n{\n\treturn (0);\n}\n"),
    ("attribute", "int\t@(void) __attribute__((unused))\n{\n\treturn (0);\n}\n"),
    ("returns-function-pointer", "int\t(*@(void))(int)\n{\n\treturn (0);\n}\n"),
]

# a line of a function body is a line, whatever it holds
LINE_KINDS = [
    ("statement", ["\tp0 = 1;\n"]),
    ("line-comment", ["\t// c\n"]),
    ("block-comment-on-two-lines", ["\t/* c\n", "\t*/\n"]),
    ("empty", ["\n"]),
    ("directive", ["#define X 1\n"]),
    ("statement-on-two-lines", ["\tp0 = 1 +\n", "\t\t2;\n"]),
    ("inner-block", ["\tif (p0)\n", "\t{\n", "\t\tp0 = 2;\n", "\t}\n"]),
    ("conditional-section", ["#ifdef X\n", "\tp0 = 3;\n", "#endif\n"]),
    ("spliced-statement", ["\tp0 = 1 + \\\n", "\t\t2;\n"]),
    ("block-comment-with-page-breaks", ["\t/* a \f b \v c \x85 d \u2028 e */\n"]),
    ("string-with-page-breaks", ["\tp0 = sizeof(\"a \f b \x1c c\");\n"]),
    ("string-spliced", ["\tp0 = sizeof(\"a\\\n", "b\");\n"]),
]


def func(body_lines, name="f", nparams=1, nvars=0):
    params = ", ".join(f"int p{i}" for i in range(nparams)) if nparams else "void"
    decls = "".join(f"\tint\tv{i};\n" for i in range(nvars)) + ("\n" if nvars else "")
    used = nvars + (1 if nvars else 0)
    stmts = "".join(f"\tp0 = {i};\n" if nparams else f"\t(void){i};\n" for i in range(max(body_lines - used - 1, 0)))
    return f"int\t{name}({params})\n{{\n{decls}{stmts}\treturn (0);\n}}\n", used + max(body_lines - used - 1, 0) + 1


def run(res, tier, br, model_ok=True, search=False):
    rng = random.Random(res.seed + 131)
    big = tier == "thorough" or search
    reqs, metas = [], []
    e2e = []        # sources for the end-to-end stream (source -> model lexer -> engine -> CheckLineLen)

    def check(name, src, code, line, expected, kind, n, L):
        outcome, diags, calls = observe(name, src)
        if code == "LINE_TOO_LONG":
            e2e.append((name, src))
        res.count("boundary", 1, **{kind.split("-")[0]: 1})
        res.nontriv((kind, n, src[-300:]))
        rp = {"kind": "limit", "name": name, "src": src, "code": code, "line": line, "expected": expected, "what": f"{kind} n={n} limit={L}"}
        for snap, new in calls:
            reqs.append(snap)
            metas.append((new, rp))
        if outcome != "ok":
            res.report("limit:not-analysed", f"{kind} n={n}: outcome {outcome}", rp)
            return
        got = any(c == code and (line is None or l == line) for c, l in diags)
        if got != expected:
            sig = f"limit:{code}:{'missing' if expected else 'spurious'}:{kind}"
            if kind == "code-last-line-no-newline" and expected and not got:
                sig = "diag:LINE_TOO_LONG@last-line-without-newline"
            if kind in ("lines-kind-spliced-statement", "lines-kind-string-spliced") and expected and not got:
                sig = "diag:TOO_MANY_LINES@line-splice-in-body"
            res.report(sig, f"{kind}: measure {n} (limit {L}): {code} is {'missing' if expected else 'spurious'} on line {line}; diagnostics {diags[:6]}", rp)

    # 80 columns
    for w in range(77, 87):
        for src, line, kind in line_cases(rng, w):
            if big or rng.random() < 0.6:
                check("l.c", src, "LINE_TOO_LONG", line, w > 80, kind, w, 80)
        # positions in the file: first / middle / last line, with and without final newline
        g = pad_to("int\tg_", w - 1) + ";"
        check("l.c", "int\tg_first;\n" + g + "\nint\tg_last;\n", "LINE_TOO_LONG", 2, w > 80, "code-middle", w, 80)
        check("l.c", "int\tg_first;\n" + g + "\n", "LINE_TOO_LONG", 2, w > 80, "code-last-line", w, 80)
        c = pad_to("// ", w, "c")
        check("l.c", "int\tg_first;\n" + c, "LINE_TOO_LONG", 2, w > 80, "comment-last-line-no-newline", w, 80)
    check("l.c", "int\tg_first;\n#define AAA \"" + "s" * 70 + "\"", "LINE_TOO_LONG", 2, True, "code-last-line-no-newline", 84, 80)
    # the same boundary for a file STORED ON DISK and read by the real command line, with characters outside ASCII on
    # the measured line (one column each): comments of each kind, a string in a code line
    import diskcheck
    for w in (range(77, 87) if big else (79, 80, 81, 82)):
        for ch in (diskcheck.NON_ASCII if big else rng.sample(diskcheck.NON_ASCII, 2)):
            cases = [("disk-line-comment", "int\tg_first;\n" + padx("// ", w, ch) + "\n", 2),
                     ("disk-block-one-line", "int\tg_first;\n" + padx("/* ", w - 3, ch) + " */\n", 2),
                     ("disk-block-interior", "int\tg_first;\n/*\n" + padx("** ", w, ch) + "\n*/\n", 3),
                     ("disk-block-last", "int\tg_first;\n/*\n** x\n" + padx("", w - 2, ch) + "*/\n", 4),
                     ("disk-string", "int\tg_first;\n" + padx("char\t*g_s = \"", w - 2, ch) + "\";\n", 2)]
            for kind, src, line in cases:
                got = diskcheck.from_disk({"d.c": src})
                res.count("boundary", 1, disk=1)
                res.nontriv((kind, w, ch))
                entry = (got["files"].get("d.c") or [None])[0]
                rp = {"kind": "disk-limit", "name": "d.c", "src": src, "line": line, "expected": w > 80, "what": f"{kind} n={w} limit=80"}
                if entry is None:
                    res.report("limit:not-analysed", f"{kind} n={w}: the command line printed no report ({got.get('exc')}, exit {got['exit']})", rp)
                    continue
                have = any(c == "LINE_TOO_LONG" and l == line for _, c, l, _ in entry["diags"])
                if have != (w > 80):
                    res.report(f"limit:LINE_TOO_LONG:{'missing' if w > 80 else 'spurious'}:{kind}",
                               f"{kind}: width {w} with {ch!r} on the line, file read from disk: LINE_TOO_LONG is {'missing' if w > 80 else 'spurious'} on line {line}", rp)
    # 25 lines, with surrounding functions and nesting
    for n in range(22, 32):
        body, real = func(n)
        for before in ((0, 2) if big else (rng.choice((0, 1, 2)),)):
            pre = "".join(func(3, name=f"g{i}")[0] + "\n" for i in range(before))
            src = pre + body
            close_line = src.count("\n")
            check("f.c", src, "TOO_MANY_LINES", close_line, real > 25, "lines", real, 25)
        # nested brace-less structure inside
        inner = "\twhile (p0)\n\t\tif (p0)\n\t\t\tp0 = 1;\n"
        stmts = "".join(f"\tp0 = {i};\n" for i in range(n - 4))
        src = f"int\tf(int p0)\n{{\n{inner}{stmts}\treturn (0);\n}}\n"
        check("f.c", src, "TOO_MANY_LINES", src.count("\n"), (n - 4 + 4) > 25, "lines-nested", n, 25)
    # 5 functions
    for n in range(2, 12):
        src = "\n".join(func(2, name=f"f{i}")[0] for i in range(n))
        for k in range(n):
            line = 1 + k * 6
            check("m.c", src, "TOO_MANY_FUNCS", line, k + 1 > 5, "funcs", k + 1, 5) if (k in (4, 5, n - 1)) else None
    # 5 functions, whatever the shape of the definitions: every shape at the 1st / 4th / 6th place among plain ones
    shapes = FUNC_SHAPES
    for shname, sh in shapes:
        for total in (5, 6):
            for place in ((0, 3, total - 1) if big else (rng.choice((0, 3)), total - 1)):
                parts = [(sh if i == place else FUNC_SHAPES[0][1]).replace("@", f"f{i}") for i in range(total)]
                src = "\n".join(parts)
                line = 1 + sum(p.count("\n") + 1 for p in parts[:total - 1])
                check("m.c", src, "TOO_MANY_FUNCS", line if total > 5 else None, total > 5, "funcs-shape-" + shname, total, 5)
    # 25 lines, whatever the lines are made of
    kinds = LINE_KINDS
    for kname, ls in kinds:
        for total in (25, 26):
            n_other = total - len(ls) - 1
            for place in ((0, n_other // 2, n_other) if big else (rng.choice((0, n_other // 2, n_other)),)):
                body = ["\tp0 = %d;\n" % i for i in range(n_other)]
                body[place:place] = ls
                src = "int\tf(int p0)\n{\n" + "".join(body) + "\treturn (p0);\n}\n"
                check("f.c", src, "TOO_MANY_LINES", src.count("\n"), total > 25, "lines-kind-" + kname, total, 25)
    # 25 lines, wherever the function stands (a header too), whatever follows its closing brace on the line, with and
    # without blocks nested in the body (their lines count as well)
    closers = ["}\n", "} \n", "}\t\n", "} // c\n", "}\t/* c */\n", "}\n\n", "}"]
    for ext, head in ((".c", "int\tf(int p0)\n"), (".h", "static inline int\tf(int p0)\n"), (".h", "int\tf(int p0)\n")):
        for nested in (False, True):
            for total in (25, 26):
                for cl in (closers if big or (nested and ext == ".h") else rng.sample(closers, 2)):
                    inner = (["\twhile (p0 < 10)\n", "\t{\n", "\t\tp0++;\n", "\t\tif (p0 == 3)\n", "\t\t{\n", "\t\t\tp0 += 2;\n", "\t\t}\n", "\t}\n"]
                             if nested else [])
                    body = inner + ["\tp0 = %d;\n" % i for i in range(total - len(inner) - 1)] + ["\treturn (p0);\n"]
                    src = head + "{\n" + "".join(body) + cl
                    check("f" + ext, src, "TOO_MANY_LINES", 2 + len(body) + 1, total > 25,
                          "lines-closer-" + ("nested-" if nested else "") + ext[1:] + "-" + repr(cl), total, 25)
    # 4 parameters (plain, pointers, function pointer)
    for n in range(1, 11):
        ps = ", ".join(f"int a{i}" for i in range(n))
        check("p.c", f"int\tf({ps})\n{{\n\treturn (0);\n}}\n", "TOO_MANY_ARGS", 1, n > 4, "params", n, 4)
        ps2 = ", ".join((f"char **b{i}" if i % 2 else f"const int *b{i}") for i in range(n))
        check("p.c", f"int\tf({ps2});\n", "TOO_MANY_ARGS", 1, n > 4, "params-proto", n, 4)
        if n <= 4:
            fp = ", ".join([f"int a{i}" for i in range(n - 1)] + ["int (*cmp)(const void *, const void *, int)"])
            check("p.c", f"int\tf({fp})\n{{\n\treturn (0);\n}}\n", "TOO_MANY_ARGS", 1, False, "params-funcptr", n, 4)
    # 5 variables
    for n in range(2, 12):
        body, _ = func(n + 3, nparams=1, nvars=n)
        check("v.c", body, "TOO_MANY_VARS_FUNC", None, n > 5, "vars", n, 5)
        decls = "".join((f"\tstatic int\tv{i} = 0;\n" if i % 3 == 0 else f"\tchar\t\tv{i}[3];\n") for i in range(n))
        check("v.c", f"int\tf(void)\n{{\n{decls}\n\treturn (0);\n}}\n", "TOO_MANY_VARS_FUNC", None, n > 5, "vars-static-array", n, 5)
    # generated conforming programs stay silent; snapshot correspondence on them and on samples
    for p in families.programs(rng, 30 if big else 6):
        outcome, diags, calls = observe(p.name, p.text)
        res.count("conforming", 1)
        for snap, new in calls:
            reqs.append(snap); metas.append((new, {"kind": "limit", "name": p.name, "src": p.text, "code": None, "line": None, "expected": False, "what": "conforming"}))
        bad = [d for d in diags if d[0] in ("LINE_TOO_LONG", "TOO_MANY_LINES", "TOO_MANY_FUNCS", "TOO_MANY_ARGS", "TOO_MANY_VARS_FUNC")]
        if bad:
            res.report("limit:spurious:conforming", f"{p.name}: {bad}", {"kind": "limit", "name": p.name, "src": p.text, "code": bad[0][0], "line": bad[0][1], "expected": False, "what": "conforming"})
    for name, src in (families.repo_samples() if big else families.repo_samples()[::4]):
        outcome, diags, calls = observe(name, src)
        for snap, new in calls:
            reqs.append(snap); metas.append((new, {"kind": "sample", "name": name}))
    if model_ok and reqs:
        nbad, first = 0, None
        for (new, rp), m in zip(metas, Driver().batch(reqs)):
            res.traces_validated += 1
            if "error" in m or sorted(m["lines"]) != sorted(new):
                nbad += 1
                first = first or (rp.get("name"), rp.get("what"), new, str(m)[:160])
        if nbad:
            res.broken.append(f"correspondence linelen/commentlen (rule snapshots): {nbad} disagreements, e.g. {first}")
    if model_ok:
        import alwayscorr
        alwayscorr.check(res, e2e + [(p.name, p.text) for p in families.programs(rng, 10 if big else 3)])
    res.sample({"boundary": "80/81 columns in 14 line kinds, 25/26 lines, 5/6 functions, 4/5 parameters, 5/6 variables"})


def reproduce(res, k):
    if k.get("input") is None:
        return
    outcome, diags, calls = observe("l.c", k["input"])
    if "TOO_MANY_LINES" in k["signature"]:
        if not any(c == "TOO_MANY_LINES" for c, l in diags):
            res.report(k["signature"], "recorded input of a listed finding", {"kind": "limit", "src": k["input"]})
        return
    if not any(c == "LINE_TOO_LONG" and l == 2 for c, l in diags):
        res.report(k["signature"], "recorded input of a listed finding", {"kind": "limit", "src": k["input"]})


def replay_disk(rp):
    import diskcheck
    got = diskcheck.from_disk({rp["name"]: rp["src"]})
    entry = (got["files"].get(rp["name"]) or [None])[0]
    print("source  :", repr(rp["src"][-200:]))
    print("observed:", entry)
    print("expected: LINE_TOO_LONG on line", rp["line"], "is", rp["expected"], "(", rp["what"], ")")
    if entry is None:
        return 1
    have = any(c == "LINE_TOO_LONG" and l == rp["line"] for _, c, l, _ in entry["diags"])
    return 1 if have != rp["expected"] else 0


def replay(rp):
    if rp.get("kind") == "disk-limit":
        return replay_disk(rp)
    if rp.get("kind") != "limit":
        print("replay names a broken obligation/correspondence:", rp.get("broken"))
        return 1
    outcome, diags, calls = observe(rp["name"], rp["src"])
    got = any(c == rp["code"] and (rp["line"] is None or l == rp["line"]) for c, l in diags)
    print(rp["what"], "| expected", rp["code"], "on line", rp["line"], ":", rp["expected"], "| observed:", got, diags[:8])
    return 0 if got == rp["expected"] else 1
