"""C08 — reports are well-formed, ordered and identical in both output formats."""
import io
import json
import itertools
import contextlib

import families
from core import Driver, cps, uncps

LEVEL_NOTE = [
    "A3 list.sort() is a stable sort when `<` is a strict weak order on the elements (Errors.__iter__ is modelled by a stable insertion sort; validated by the `sort` stream)",
    "A7 json.dumps produces valid JSON for str/int/None/list/dict (the JSON text is parsed back with json.loads by the oracle)",
    "theorems are about Model/Reports.lean (comparator, sort, status, both formatters as structured documents); tie = `sort` and `fmt` correspondences (byte-exact humanized text, structural JSON) + regenerated catalogue / colour tables",
    "rule diagnostics: `new_error/new_warning` always attach Highlight.from_token (read in context.py); errors built elsewhere are checked dynamically by the oracle (every diagnostic has >= 1 highlight)",
]
PARTIAL = [
    "C08.lexer_diag_inside_file: the printed position of every LEXICAL diagnostic satisfies 1 <= line <= number of lines and column >= 1, for every source text (from C09.diag_positions); C08_position for *rule* diagnostics and C08_catalogue for rule-emitted codes are checked by the oracle on the implementation, not proved (they depend on the unported rules)",
    "BAD_LEXEME is built with a dynamic text that is not in the catalogue: known finding diag:BAD_LEXEME@lexer:text-not-in-catalogue",
]


def diag_req(d):
    return [cps(d[0]), cps(d[1]), d[2], [[h[0], h[1], h[2], None if h[3] is None else cps(h[3])] for h in d[3]]]


def diag_back(d):
    return [uncps(d[0]), uncps(d[1]), d[2], [[h[0], h[1], h[2], uncps(h[3])] for h in d[3]]]


def gen_errors(rng):
    names = ["A", "B", "AB", "LINE_TOO_LONG", "a", "TOO_MANY_ARGS", "INVALID_HEADER", "Z"]
    hints = [None, None, "h", "a longer hint"]
    n = rng.randint(1, 10)
    out = []
    for _ in range(n):
        hs = [[rng.randint(1, 4), rng.randint(1, 4), rng.choice([None, 1, 3]), rng.choice(hints)] for _ in range(rng.randint(1, 3))]
        out.append([rng.choice(names), rng.choice(["t", "text two"]), rng.choice(["Error", "Error", "Notice"]), hs])
    return out


def impl_sorted(ds):
    from norminette.errors import Errors, Error, Highlight
    e = Errors()
    for d in ds:
        e.add(Error(d[0], d[1], d[2], [Highlight(*h) for h in d[3]]))
    from impl import diag_tuple
    return [diag_tuple(x) for x in e], e.status


def run_sort(res, tier, model_ok):
    import random
    rng = random.Random(res.seed + 101)
    n = 20000 if tier == "thorough" else 2500
    cases = [gen_errors(rng) for _ in range(n)]
    # exhaustive pairs/triples over a small domain (comparator laws are proved; this validates the transcription)
    small = []
    dom = [[nm, "t", "Error", [[l, c, None, h]]] for nm in ("A", "B") for l in (1, 2) for c in (1, 2) for h in (None, "x")]
    for a, b in itertools.product(dom, repeat=2):
        small.append([a, b])
    for t in itertools.islice(itertools.product(dom, repeat=3), 0, None, 7 if tier != "thorough" else 1):
        small.append(list(t))
    cases += small
    model = Driver().batch([{"op": "sort", "diags": [diag_req(d) for d in c]} for c in cases]) if model_ok else None
    bad = []
    for k, c in enumerate(cases):
        out, st = impl_sorted(c)
        res.count("sort", 1)
        if len(c) >= 2:
            res.nontriv(("sort", json.dumps(c)))
        # oracle: ascending displayed position; permutation
        pos = [(d[3][0][0], d[3][0][1]) for d in out]
        if pos != sorted(pos):
            res.report("sort:not-ascending", f"diagnostics not in ascending (line, col) order: {pos}",
                       {"kind": "sort", "diags": c, "observed": out})
        if sorted(map(json.dumps, out)) != sorted(map(json.dumps, c)):
            res.report("sort:not-permutation", "sorting lost or duplicated a diagnostic", {"kind": "sort", "diags": c, "observed": out})
        okst = "OK" if all(d[2] == "Notice" for d in c) else "Error"
        if st != okst:
            res.report("status:wrong", f"status {st} for levels {[d[2] for d in c]}", {"kind": "sort", "diags": c})
        if model is not None:
            m = model[k]
            res.traces_validated += 1
            if "error" in m or [diag_back(d) for d in m["sorted"]] != out or m["status"] != st:
                bad.append((c, out, m))
    res.sample({"sort": cases[0]})
    if bad:
        c, out, m = min(bad, key=lambda x: len(x[0]))
        res.broken.append(f"correspondence sort: {len(bad)} disagreements, e.g. input {c} impl {out} model {m}")


def run_ops(res, tier, model_ok):
    """the container under a history: diagnostics keep arriving between two readings (the lexer's, then the rules',
    then a formatter's); every reading is the sorted list of everything added so far"""
    import random
    from norminette.errors import Errors, Error, Highlight
    from impl import diag_tuple
    rng = random.Random(res.seed + 211)
    n = 3000 if tier == "thorough" else 400
    reqs, want = [], []
    for _ in range(n):
        e = Errors()
        added = []
        hist = []
        for _ in range(rng.randint(2, 5)):
            batch = gen_errors(rng)[: rng.randint(1, 4)]
            for d in batch:
                e.add(Error(d[0], d[1], d[2], [Highlight(*h) for h in d[3]]))
                added.append(d)
            op = rng.choice(["iter", "iter", "status", "len", "iter-twice"])
            hist.append((len(batch), op))
            if op == "status":
                _ = e.status
                continue
            if op == "len":
                _ = len(e)
                continue
            out = [diag_tuple(x) for x in e]
            if op == "iter-twice":
                out = [diag_tuple(x) for x in e]
            res.count("ops", 1)
            res.nontriv(("ops", json.dumps(added)))
            rp = {"kind": "ops", "diags": list(added), "history": list(hist), "observed": out}
            pos = [(d[3][0][0], d[3][0][1]) for d in out]
            if pos != sorted(pos):
                res.report("sort:not-ascending", f"after the history {hist} the reading is not in ascending (line, col) order: {pos}", rp)
            if sorted(map(json.dumps, out)) != sorted(map(json.dumps, added)):
                res.report("sort:not-permutation", f"after the history {hist} the reading lost or duplicated a diagnostic", rp)
            reqs.append({"op": "sort", "diags": [diag_req(d) for d in added]})
            want.append((out, rp))
    if model_ok and reqs:
        bad = 0
        first = None
        for (out, rp), m in zip(want, Driver().batch(reqs)):
            res.traces_validated += 1
            if "error" in m or [diag_back(d) for d in m["sorted"]] != out:
                bad += 1
                first = first or rp
        if bad:
            res.broken.append(f"correspondence sort (readings inside a history of additions): {bad} disagreements, e.g. history {first['history']} diags {first['diags']}")


def formatted(files):
    """files: list of (path, basename, diags) -> humanized text (colors on/off), json object"""
    from norminette.file import File
    from norminette.errors import Error, Highlight, HumanizedErrorsFormatter, JSONErrorsFormatter
    fs = []
    for path, ds in files:
        f = File(path, "")
        for d in ds:
            f.errors.add(Error(d[0], d[1], d[2], [Highlight(*h) for h in d[3]]))
        fs.append(f)
    return (str(HumanizedErrorsFormatter(fs, use_colors=True)), str(HumanizedErrorsFormatter(fs, use_colors=False)),
            str(JSONErrorsFormatter(fs)))


def parse_human(text):
    """verdict lines and diagnostic lines of the humanized output"""
    import re
    files = []
    for line in text.split("\n"):
        if not line:
            continue
        m = re.match(r"^(Error|Notice): (\S+)\s+\(line:\s*(\d+), col:\s*(\d+)\):\t(.*)$", line)
        if m and files:
            files[-1][2].append((m.group(1), m.group(2), int(m.group(3)), int(m.group(4)), re.sub(r"\x1b\[\d+m", "", m.group(5))))
            continue
        m = re.match(r"^(.*): (OK|Error)!$", line)
        if m:
            files.append([m.group(1), m.group(2), []])
        else:
            files.append(["<unparsed:" + line[:40] + ">", "?", []])
    return files


def run_fmt(res, tier, model_ok, file_diags):
    """file_diags: list of lists of (path, diags) as produced by the real pipeline"""
    import os
    reqs = []
    outs = []
    for files in file_diags:
        hc, hn, js = formatted(files)
        outs.append((hc, hn, js))
        reqs.append({"op": "fmt", "colors": True, "files": [
            {"path": cps(p), "basename": cps(os.path.basename(p)), "abspath": cps(os.path.abspath(p)),
             "diags": [diag_req(d) for d in ds]} for p, ds in files]})
    model = Driver().batch(reqs) if model_ok else None
    nbad = 0
    first = None
    for k, files in enumerate(file_diags):
        hc, hn, js = outs[k]
        res.count("fmt", 1)
        if sum(len(ds) for _, ds in files) >= 2:
            res.nontriv(("fmt", js))
        # oracle: JSON valid, same files/verdicts/diagnostics in the same order as the humanized output
        try:
            j = json.loads(js)
        except Exception as e:
            res.report("json:invalid", f"JSON output does not parse: {e}", {"kind": "fmt", "files": files, "json": js[:400]})
            continue
        ph = parse_human(hn)
        pj = [[os.path.basename(f["path"]), f["status"],
               [(e["level"], e["name"], e["highlights"][0]["lineno"], e["highlights"][0]["column"], e["text"]) for e in f["errors"]]]
              for f in j["files"]]
        if ph != pj:
            res.report("formats:disagree", f"humanized {ph} vs json {pj}"[:500], {"kind": "fmt", "files": files, "human": hn, "json": js})
        if model is not None:
            m = model[k]
            res.traces_validated += 1
            ok = "error" not in m and m["human"] is not None and uncps(m["human"]["text"]) == hc
            if ok:
                mj = [[uncps(f[0]), f[1], [diag_back(d) for d in f[2]]] for f in m["json"]]
                ij = [[f["path"], f["status"], [[e["name"], e["text"], e["level"],
                       [[h["lineno"], h["column"], h["length"], h["hint"]] for h in e["highlights"]]] for e in f["errors"]]] for f in j["files"]]
                ok = mj == ij
            if not ok:
                nbad += 1
                first = first or (files, hc, m)
    if file_diags:
        res.sample({"fmt": file_diags[0]})
    if nbad:
        res.broken.append(f"correspondence fmt: {nbad} disagreements, e.g. {str(first)[:400]}")


def oracle_file(res, name, src, r, catalogue):
    """C08 statement on one analysed file (r = impl.pipeline result with raw/sorted diags)."""
    if r["outcome"] != "ok":
        return
    # the lines of the file: a final newline ends the last line, it does not open another one
    nlines = src.count("\n") + (0 if src.endswith("\n") else 1) if src else 1
    for d in r["diags"]:
        code, text, level, hs = d
        if not hs:
            res.report(f"diag:{code}@no-highlight", f"{name}: diagnostic {code} has no highlight", {"kind": "file", "name": name, "src": src})
            continue
        if code not in catalogue:
            res.report(f"diag:{code}@lexer:text-not-in-catalogue" if code == "BAD_LEXEME" else f"diag:{code}@not-in-catalogue",
                       f"{name}: code {code} is not in the published catalogue", {"kind": "file", "name": name, "src": src})
        elif catalogue[code] != text:
            res.report(f"diag:{code}@text", f"{name}: text of {code} is {text!r}, catalogue says {catalogue[code]!r}",
                       {"kind": "file", "name": name, "src": src})
        if level not in ("Error", "Notice"):
            res.report(f"diag:{code}@level", f"{name}: level {level!r}", {"kind": "file", "name": name, "src": src})
        line, col = hs[0][0], hs[0][1]
        if not (1 <= line <= nlines) or col < 1:
            res.report(f"diag:{code}@position-outside-file", f"{name}: {code} at ({line},{col}) in a file of {nlines} lines",
                       {"kind": "file", "name": name, "src": src})
    pos = [(d[3][0][0], d[3][0][1]) for d in r["diags"] if d[3]]
    if pos != sorted(pos):
        res.report("sort:not-ascending", f"{name}: diagnostics not ascending: {pos}", {"kind": "file", "name": name, "src": src})


def run(res, tier, br, model_ok=True, search=False):
    import random
    from impl import pipeline
    from norminette.norm_error import errors as catalogue
    rng = random.Random(res.seed + 7)
    run_sort(res, tier, model_ok)
    run_ops(res, tier, model_ok)
    n = 250 if tier == "thorough" else 25
    progs = families.programs(rng, n)
    viol = families.violating(rng, progs, per_prog=3 if tier == "thorough" else 2)
    files = [(p.name, p.text) for p in progs] + [(p.name, t) for p, op, site, t, line in viol]
    files += [("lex%d.c" % i, s) for i, s in enumerate(families.LEXICAL_SNIPPETS)]
    files += families.repo_samples() if tier == "thorough" else families.repo_samples()[::4]
    # damaged texts: a lexical accident somewhere, ordinary diagnostics after it (down to the last line)
    hosts = [(p.name, p.text) for p in progs[: (40 if tier == "thorough" else 8)]] + [(n_, s_) for n_, s_ in files if n_.startswith("lex")]
    files += [(nm, t) for nm, t, what in families.damaged(rng, hosts, per_host=10 if tier == "thorough" else 6)]
    files += [(nm, t) for nm, t, what in families.damaged_tail(rng, hosts, per_host=4 if tier == "thorough" else 2)]
    results = []
    for name, src in files:
        r = pipeline(name, src)
        res.count("pipeline", 1)
        if r["outcome"] == "ok":
            if len(r["diags"]) >= 2:
                res.nontriv(("file", src))
            oracle_file(res, name, src, r, catalogue)
            results.append((name, r["raw"]))
    # formatter correspondence + format-agreement oracle on groups of 1..3 real files
    groups = []
    i = 0
    while i < len(results):
        k = rng.randint(1, 3)
        groups.append([("/nium/" + nm if rng.random() < 0.5 else nm, ds) for nm, ds in results[i:i + k]])
        i += k
    run_fmt(res, tier, model_ok, groups)
    cli_formats(res, rng, [(n, s_) for n, s_ in files if len(s_) < 4000][:8])


def cli_formats(res, rng, files):
    """the real CLI, one process per format, several files named on the command line: both reports list the
    same files in the order of the command line, with the same verdicts and diagnostics"""
    import os, shutil, tempfile
    from impl import run_cli
    from props.C16 import parse_any
    d = tempfile.mkdtemp(prefix="verif_c08_")
    try:
        names = []
        for k, (name, src) in enumerate(files):
            nm = f"n{k}_{name}"
            open(os.path.join(d, nm), "w").write(src)
            names.append(nm)
        # a symbolic link is a file under its own name, in both reports
        if names:
            os.symlink(names[0], os.path.join(d, "lnk_to_first.c" if names[0].endswith(".c") else "lnk_to_first.h"))
            names.append("lnk_to_first.c" if names[0].endswith(".c") else "lnk_to_first.h")
        rng.shuffle(names)
        got = {}
        for o in (["--no-colors"], ["-f", "json"]):
            out = run_cli(o + names, d)
            res.count("cli-formats", 1)
            if out.get("hang") or out["exit"] is None or "Unrecognized" in out["stdout"]:
                return
            got[o[-1]] = parse_any(out["stdout"], "json" if "json" in o else "humanized")
        rp = {"kind": "cli-formats", "argv": names, "files": {n: s_ for n, (_, s_) in zip([f"n{k}_{nm}" for k, (nm, _) in enumerate(files)], files)}}
        h, j = got.get("--no-colors"), got.get("json")
        if h is None or j is None or h != j:
            res.report("formats:disagree", f"CLI humanized {str(h)[:200]} vs json {str(j)[:200]}", rp)
        elif [x[0] for x in h] != names:
            res.report("formats:file-order", f"files listed as {[x[0] for x in h]}, command line {names}", rp)
    finally:
        shutil.rmtree(d, ignore_errors=True)


def replay(rp):
    from impl import pipeline
    from norminette.norm_error import errors as catalogue
    import core
    res = core.Result("C08", "replay", 0)
    if rp.get("kind") == "file":
        r = pipeline(rp["name"], rp["src"])
        print("observed:", r.get("diags"))
        oracle_file(res, rp["name"], rp["src"], r, catalogue)
    elif rp.get("kind") == "ops":
        from norminette.errors import Errors, Error, Highlight
        from impl import diag_tuple
        e = Errors()
        i = 0
        out = []
        for nb, op in rp["history"]:
            for d in rp["diags"][i:i + nb]:
                e.add(Error(d[0], d[1], d[2], [Highlight(*h) for h in d[3]]))
            i += nb
            if op.startswith("iter"):
                out = [diag_tuple(x) for x in e]
        pos = [(d[3][0][0], d[3][0][1]) for d in out]
        print("history:", rp["history"]); print("last reading positions:", pos)
        if pos != sorted(pos):
            res.violations.append(("sort", "", {}))
    elif rp.get("kind") == "sort":
        out, st = impl_sorted(rp["diags"])
        print("observed order:", [(d[0], d[3][0][:2]) for d in out])
        pos = [(d[3][0][0], d[3][0][1]) for d in out]
        if pos != sorted(pos):
            res.violations.append(("sort", "", {}))
    elif rp.get("kind") == "cli-formats":
        import random
        files = [(n.split("_", 1)[1], s_) for n, s_ in rp["files"].items()]
        cli_formats(res, random.Random(1), files)
    elif rp.get("kind") == "fmt":
        run_fmt(res, "quick", False, [[(p, ds) for p, ds in rp["files"]]])
    else:
        print("replay names a broken obligation/correspondence:", rp.get("broken"))
        return 1
    for v in res.violations:
        print("VIOLATED:", v[0], v[1][:300])
    return 1 if (res.violations or res.known_hits) else 0


def reproduce(res, k):
    from impl import pipeline
    from norminette.norm_error import errors as catalogue
    if k.get("input") is None:
        return
    r = pipeline("x.c", k["input"])
    oracle_file(res, "x.c", k["input"], r, catalogue)
