"""C19 — diagnostics are local: unrelated text only shifts them."""
import random

import families
import meta
from gen import header, grammar

LEVEL_NOTE = [
    "theorem C19.lex_shift / lex_after_prefix: the lexer is blind to what precedes it — standing at column 1 in front of a text after dl lines of other text it produces exactly the items (kinds, values, columns) and diagnostics of that text alone, moved down by dl lines (equivariance proved for every function of the lexer model, Proofs/LexShift.lean)",
    "theorem C19.comment_lines_prefix (Proofs/CommentLine.lean): n one-line block comments (any text whose characters read as themselves and that holds no `*/`; the eleven lines of the 42 header are a checked instance) put in front of ANY source lex to 2n comment/newline tokens followed by exactly the items and diagnostics of the source moved down n lines — the reachability half that lex_after_prefix left open, so the lexer half of the shift claim is a closed theorem",
    "lexer half: token positions are visual positions (C09.token_positions) and the token stream tiles the source (C10.tiling), so text prepended line-wise can only shift the lines of later tokens; engine half: the loop of Registry.run is a left fold over statements (C07 theorems) — diagnostics of a prefix cannot depend on statements appended after it except through look-ahead inside rules",
    "tie: the locality oracle below runs the whole pipeline on (file, file with header / comment line / appended function) pairs",
]
PARTIAL = [
    "C19_shift_partial / C19_append_partial: line-equivariance and history-transparency of the rules (unported) are not proved; decided per input by the oracle",
]

KNOWN_SHIFT_FRAGILE = ()


def without_header(p):
    lines = p.text.split("\n")
    body = lines[p.body_start_line - 1:]
    return "\n".join(body)


def run(res, tier, br, model_ok=True, search=False):
    rng = random.Random(res.seed + 103)
    big = tier == "thorough" or search
    progs = families.programs(rng, 60 if big else 14, kinds=("c", "c", "h"))
    viol = families.violating(rng, progs, per_prog=1)
    hdr_len = 11
    # (a) header in front of a headerless file
    cases = [(p.name, without_header(p)) for p in progs]
    for p, op, site, t, line in viol:
        lines = t.split("\n")
        if t.startswith(header.header42(p.name)):
            rest = "\n".join(lines[hdr_len:])
            cases.append((p.name, rest.lstrip("\n")))
    for name, src in cases:
        if not src or src.startswith("\n"):
            continue
        o0, d0, _ = meta.diags(name, src)
        new = header.header42(name) + src
        o1, d1, _ = meta.diags(name, new)
        res.count("header", 1)
        res.nontriv(("hd", src))
        if o0 != "ok" or o1 != "ok":
            if o0 != o1:
                res.report("header:outcome", f"{name}: outcome {o0} without header, {o1} with it", {"kind": "header", "name": name, "src": src})
            continue
        want = sorted((lv, c, l + hdr_len, col) for lv, c, l, col in d0 if c != "INVALID_HEADER")
        if d1 != want:
            res.report("header:shift", f"{name}: with the header: unexpected {[x for x in d1 if x not in want][:3]}, missing {[x for x in want if x not in d1][:3]}",
                       {"kind": "header", "name": name, "src": src})
        nih = sum(1 for x in d0 if x[1] == "INVALID_HEADER")
        if nih != 1:
            res.report("header:not-once", f"{name}: headerless file gets {nih} INVALID_HEADER", {"kind": "header", "name": name, "src": src})
    # violating variants that keep the line structure of their program (the item positions stay valid), and in any
    # case some with the violations that rules remember across statements (long lines, counters)
    from gen import mutate
    forced = []
    for oid in ("V82_81_columns", "V01_trailing_space", "V44_two_instructions"):
        op = mutate.BY_ID.get(oid)
        for p in [q for q in progs if q.kind == "c"][: (12 if big else 4)]:
            try:
                sites = op.sites(p) if op else []
                if sites:
                    t, line = op.apply(p, rng.choice(sites))
                    forced.append((p, t))
            except Exception:
                pass
    variants = [(p, p.text) for p in progs] + [(v[0], v[3]) for v in viol[: (30 if big else 6)]] + forced
    variants_all = variants
    variants = [(p, t) for p, t in variants if t.count("\n") == p.text.count("\n")]
    # (b) a comment line between two top-level definitions
    for p, src in variants:
        o0, d0, _ = meta.diags(p.name, src)
        if o0 != "ok":
            continue
        defs = [it for it in p.items if it["kind"] in ("func", "global", "proto", "typedef")]
        lines = src.split("\n")
        for a, b in zip(defs, defs[1:]):
            if rng.random() < (0.6 if big else 0.35):
                at = b["first_line"]            # the comment line goes directly above the second definition
                new = "\n".join(lines[:at - 1] + ["/* " + rng.choice(["note", "x", "see below", "{;}"]) + " */"] + lines[at - 1:])
                o1, d1, _ = meta.diags(p.name, new)
                res.count("comment-line", 1)
                res.nontriv(("cl", new))
                want = sorted((lv, c, l + (1 if l >= at else 0), col) for lv, c, l, col in d0)
                if o1 != "ok" or d1 != want:
                    res.report("comment-line:shift", f"{p.name}: comment line inserted above line {at}: outcome {o1}, unexpected {[x for x in d1 if x not in want][:3]}, missing {[x for x in want if x not in d1][:3]}",
                               {"kind": "comment-line", "name": p.name, "src": src, "at": at})
    # (c) appending a conforming function to a file with fewer than five
    for p, src in variants_all:
        if p.kind != "c" or len(p.functions) >= 5:
            continue
        o0, d0, _ = meta.diags(p.name, src)
        if o0 != "ok":
            continue
        for variant in range(2 if big else 1):
            fn = f"\nint\tzz_extra{variant}(int a, int b)\n{{\n\tint\tc;\n\n\tc = a + b;\n\twhile (c > 10)\n\t\tc--;\n\treturn (c);\n}}\n"
            new = src + fn
            o1, d1, _ = meta.diags(p.name, new)
            res.count("append", 1)
            res.nontriv(("ap", new))
            if o1 != "ok" or d1 != d0:
                res.report("append:changed", f"{p.name} ({len(p.functions)} functions): appending a conforming function: outcome {o1}, new {[x for x in d1 if x not in d0][:3]}, gone {[x for x in d0 if x not in d1][:3]}",
                           {"kind": "append", "name": p.name, "src": src, "appended": fn})
    # hand-written shapes: globals sized with sizeof / macros before functions, // comments below a header
    hand = [
        ("hand1.c", "static char\tg_buf[sizeof(long) * 8];\n\nint\tf1(void)\n{\n\treturn (1);\n}\n\nint\tf2(void)\n{\n\treturn (2);\n}\n\nint\tf3(void)\n{\n\treturn (3);\n}\n\nint\tf4(void)\n{\n\treturn (4);\n}\n"),
        ("hand2.c", "#include <unistd.h>\n\n// prints one character\nvoid\tft_putchar(char c)\n{\n\twrite(1, &c, 1);\n}\n"),
        ("hand3.c", "int\tg_slots[SLOTS(2)];\nint\t(*g_fp)(int) = 0;\n\nint\tf1(void)\n{\n\treturn (1);\n}\n\nint\tf2(void)\n{\n\t// note\n\treturn (2);\n}\n\nint\tf3(void)\n{\n\treturn (3);\n}\n\nint\tf4(void)\n{\n\treturn (4);\n}\n"),
    ]
    five = "".join(f"\nint\tf{i}(void)\n{{\n\treturn ({i});\n}}\n" for i in range(2, 6))
    hand += [
        # files whose first statement is a block comment (it joins the header's comment block)
        ("hand4.c", "/*\n** my file\n*/\n\nint\tf1(void)\n{\n\treturn (1);\n}\n"),
        ("hand5.c", "/* x */\nint\tg_a;\n/* y */ int\tg_b;\n"),
        # preprocessor-conditional declarators sharing one body, function count at the limit
        ("hand6.c", "#include <unistd.h>\n\n#ifdef WIDE\n\nlong\tft_first(long n)\n#else\n\nint\tft_first(int n)\n#endif\n{\n\treturn (n);\n}\n" + five),
        ("hand7.c", "#include <unistd.h>\n#ifdef WIDE\nlong\tft_first(long n)\n#else\nint\tft_first(int n)\n#endif\n{\n\treturn (n);\n}\n" + five + "\nint\tf6(void)\n{\n\treturn (6);\n}\n"),
        ("hand8.h", "#ifndef HAND8_H\n# define HAND8_H\n\n# ifdef WIDE\ntypedef long\tt_n;\n# else\ntypedef int\tt_n;\n# endif\n\nt_n\tf1(t_n a);\n\n#endif\n"),
    ]
    # top-level definitions of every shape (the ones of C03.FUNC_SHAPES, types with the brace on the keyword line or
    # below it, initialised arrays, prototypes on two lines), so that every kind of neighbour gets a comment line next to it
    from props.C03 import FUNC_SHAPES
    shapes9 = ["struct s_pair {\n\tint\ta;\n\tint\tb;\n};\n", "int\tg_n = 3;\n", "enum e_k {\n\tAA,\n\tBB\n};\n", "union u_v\n{\n\tint\ti;\n\tchar\tc;\n};\n",
               "int\tg_tab[2][2] = {{1, 2}, {3, 4}};\n", "static long\tproto(int a,\n\t\t\tint b);\n", "typedef struct s_q\n{\n\tint\tx;\n}\tt_q;\n"]
    for v in range(3 if big else 2):
        parts = [sh.replace("@", f"f{i}") for i, (_, sh) in enumerate(rng.sample(FUNC_SHAPES, 4))] + rng.sample(shapes9, 3)
        rng.shuffle(parts)
        hand.append((f"hand9_{v}.c", "\n".join(parts)))
    # what a file may START with, and what it may END with: every kind of first line directly followed by the next
    # definition (no line in between) — a declarator whose brace comes after preprocessor lines, a declaration, a
    # prototype, a macro, a type —, a byte order mark or a form feed as the very first character, and globals of every
    # spelling (implicit int too) as the last statement before an appended function
    f1 = "int\tf1(int a)\n{\n\treturn (a);\n}\n"
    firsts = ["int\tft_first(int n)\n#ifdef WIDE\n# define W 1\n#endif\n{\n\treturn (n);\n}\n", "int\tft_first(int n)\n#define W 1\n{\n\treturn (n);\n}\n",
              "int\tg_a;\n", "static int\tproto(int a);\n", "#define N 3\n", "typedef int\tt_n;\n", "enum e_k\n{\n\tAA\n};\n", "extern char\t**environ;\n", "#include <unistd.h>\n"]
    for k, fs in enumerate(firsts):
        hand.append((f"hand10_{k}.c", fs + f1))
        if big or k % 3 == rng.randrange(3):
            hand.append((f"hand10_{k}b.c", fs + "\n" + f1))
    for k, lead in enumerate(["\ufeff", "\f", "\ufeff ", " ", "\t"]):
        hand.append((f"hand11_{k}.c", lead + "int\tg_a = 1;  \n\n" + f1))
    for k, g in enumerate(["unsigned\tg_u;\n", "static\tg_count;\n", "const\tg_c;\n", "unsigned int\tg_v;\n", "long\tg_l = 3;\n", "int\tg_t[2];\n", "char\t*g_s;\n",
                           "struct s_p\tg_p;\n", "extern int\tg_e;\n", "t_list\t*g_lst;\n"]):
        hand.append((f"hand12_{k}.c", f1 + "\n" + g))
    nhand = len(hand)
    hand += [(n, s_) for n, s_ in (families.repo_samples() if big else families.repo_samples()[::3])
             if not s_.startswith("/* ****") and not s_.startswith("\n") and s_.strip()]
    for hi, (name, src) in enumerate(hand):
        o0, d0, _ = meta.diags(name, src)
        # the header directly in front, and (below) with an empty line after it
        oh, dh, _ = meta.diags(name, header.header42(name) + src)
        res.count("hand", 1)
        wanth = sorted((lv, c, l + 11, col) for lv, c, l, col in d0 if c != "INVALID_HEADER")
        if o0 == "ok" and not src.startswith("//") and (oh != "ok" or dh != wanth):
            res.report("header:shift", f"{name}: with the header directly in front: unexpected {[x for x in dh if x not in wanth][:3]}, missing {[x for x in wanth if x not in dh][:3]}",
                       {"kind": "header", "name": name, "src": src})
        if hi >= nhand:
            continue        # repository samples: only the header directly in front (their function counts and endings vary)
        new = header.header42(name) + "\n" + src
        o1, d1, _ = meta.diags(name, new)
        res.count("hand", 1)
        want = sorted((lv, c, l + 12, col) for lv, c, l, col in d0 if c != "INVALID_HEADER")
        if o0 == "ok" and (o1 != "ok" or d1 != want):
            res.report("header:shift", f"{name}: with header+blank line: unexpected {[x for x in d1 if x not in want][:3]}, missing {[x for x in want if x not in d1][:3]}",
                       {"kind": "header12", "name": name, "src": src})
        # a comment line at every top-level insertion point (brace depth 0, not inside a statement that continues)
        implicit_last = name in ("hand12_0.c", "hand12_1.c", "hand12_2.c")     # `unsigned g_u;` etc. as the last statement
        if o0 == "ok" and not implicit_last:
            ls = src.split("\n")
            depth, points = 0, []
            # "between two top-level definitions": below the first definition (the comments a file starts with are
            # where a header is looked for)
            first_def = next((i for i, l in enumerate(ls) if l.strip() and not l.lstrip().startswith(("/*", "**", "*/", "//"))), len(ls))
            for i, l in enumerate(ls):
                if depth == 0 and i > first_def and ls[i - 1].rstrip().endswith((";", "}", "*/")) and not l.startswith(("{", "#else", "#endif", "#elif")):
                    points.append(i)
                depth += l.count("{") - l.count("}")
            for at0 in (points if big else rng.sample(points, min(len(points), 5))):
                at = at0 + 1
                cm = rng.choice(["/* note */", "// a remark", "/* {;} */"])
                new2 = "\n".join(ls[:at0] + [cm] + ls[at0:])
                o3, d3, _ = meta.diags(name, new2)
                res.count("comment-line", 1)
                want3 = sorted((lv, c, l + (1 if l >= at else 0), col) for lv, c, l, col in d0)
                extra3 = [x for x in d3 if x not in want3]
                missing3 = [x for x in want3 if x not in d3]
                if o3 != "ok" or extra3 or missing3:
                    res.report("comment-line:shift", f"{name}: comment line inserted above line {at}: outcome {o3}, unexpected {extra3[:3]}, missing {missing3[:3]}",
                               {"kind": "comment-line", "name": name, "src": src, "at": at, "comment": cm})
        fn = "\nint\tzz_extra(int a)\n{\n\treturn (a);\n}\n"
        if (("\n" + src).count("\n{\n") >= 5 or name.endswith(".h") or not src.endswith(("}\n", ";\n"))
                or any(x[1] == "TOO_MANY_FUNCS" for x in d0)):
            continue        # appending is only claimed for files with fewer than five functions
        o2, d2, _ = meta.diags(name, src + fn)
        if o0 == "ok" and (o2 != "ok" or d2 != d0):
            res.report("append:changed@implicit-int-global-last" if implicit_last else "append:changed", f"{name}: appending a conforming function: new {[x for x in d2 if x not in d0][:3]}, gone {[x for x in d0 if x not in d2][:3]}",
                       {"kind": "append", "name": name, "src": src, "appended": fn})
    res.sample({"header": cases[0][0] if cases else None})


def replay(rp):
    k = rp.get("kind")
    if k in ("header", "header12"):
        sep = "\n" if k == "header12" else ""
        n = 12 if k == "header12" else 11
        a = meta.diags(rp["name"], rp["src"]); b = meta.diags(rp["name"], header.header42(rp["name"]) + sep + rp["src"])
        want = sorted((lv, c, l + n, col) for lv, c, l, col in a[1] if c != "INVALID_HEADER")
        print("without:", a[0], a[1]); print("with   :", b[0], b[1])
        return 0 if (b[0] == a[0] == "ok" and b[1] == want) else 1
    if k == "comment-line":
        lines = rp["src"].split("\n"); at = rp["at"]
        new = "\n".join(lines[:at - 1] + [rp.get("comment", "/* note */")] + lines[at - 1:])
        a = meta.diags(rp["name"], rp["src"]); b = meta.diags(rp["name"], new)
        want = sorted((lv, c, l + (1 if l >= at else 0), col) for lv, c, l, col in a[1])
        print("before:", a[1]); print("after :", b[1])
        if rp.get("comment"):
            return 0 if b[1] == want else 1
        return 0 if b[1] == want else 1
    if k == "append":
        a = meta.diags(rp["name"], rp["src"]); b = meta.diags(rp["name"], rp["src"] + rp["appended"])
        print("before:", a[1]); print("after :", b[1])
        return 0 if a[1] == b[1] else 1
    print("replay names a broken obligation/correspondence:", rp.get("broken"))
    return 1
