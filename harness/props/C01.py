"""C01 — Norm-conforming files are accepted."""
import os
import random
import shutil
import tempfile
import collections

import families
import faults
from gen import grammar

LEVEL_NOTE = [
    "C01_full (every program of the grammar of DESIGN §4.1 gets only Notices) is NOT proved: it needs every rule ported. Proved fragments (C01.verdict_ok, linelen_silent, token_col_le, and by import C13.accept, C11.int_valid): the verdict/exit plumbing, the 42 header, integer constants, the 80-column limit",
    "for every rule table (C01.always_silent / spacing_silent / many_instr_silent): CheckTernary, CheckLineLen, CheckSpacing and CheckManyInstructions (complete ports, Model/Checks.lean and Model/Spacing.lean) add nothing to a file whose tokens are cleanly spaced / short / free of `?` and whose statements start at column 1; tie: `always` stream",
    "decision per program: the acceptance oracle runs the real pipeline (and the real CLI for a sample) on generated conforming programs; the generator harness/gen/grammar.py follows §4.1 (gen/grammar.py::REJECTED_CONSTRUCTS lists the constructs the tool refuses: 7 are corrections of the grammar, 6 are genuine defects recorded as known findings and replayed on every run; all are excluded from generation)",
]
PARTIAL = [
    "C01_partial: operator/parenthesis spacing, pointer disambiguation, indentation and alignment of declarations/prototypes, user-type checks, argument names and the statement segmentation are not modelled; the oracle decides them per generated program (production coverage is reported in the evidence)",
]


# constructs derivable from the §4.1 grammar that the tool rejects (genuine C01 defects, recorded
# in known_findings.json and excluded from the generator): slug -> index in REJECTED_CONSTRUCTS.
# The other entries of that list are corrections of the grammar, see DESIGN §4.1.
KNOWN_REJECTED = {
    "cast-before-char-constant": 0,
    "unary-minus-before-char-constant": 1,
    "bitwise-not-before-char-constant": 2,
    "star-after-cast-of-parenthesised-expression": 5,
    "star-after-group-ending-with-user-type-pointer": 6,
    "braceless-body-that-is-an-if-else": 11,
}


def known_constructs(res):
    """each listed construct is replayed on the real code; it is reported (and then recognised as
    a known finding by its signature) only while the tool still rejects it"""
    from impl import pipeline
    from gen.header import header42
    for slug, idx in KNOWN_REJECTED.items():
        desc, body, expected = grammar.REJECTED_CONSTRUCTS[idx]
        text = header42("x.c") + body
        r = pipeline("x.c", text)
        res.count("known-constructs", 1)
        errs = [(d[0], d[3][0][0]) for d in r["diags"] if d[2] == "Error"] if r["outcome"] == "ok" else [(r["outcome"], 0)]
        if errs:
            res.report(f"conforming:{errs[0][0]}@{slug}", f"{desc}: {errs[:3]}", {"kind": "conforming", "name": "x.c", "src": text})


def run(res, tier, br, model_ok=True, search=False):
    from impl import run_cli
    known_constructs(res)
    rng = random.Random(res.seed + 137)
    big = tier == "thorough" or search
    n = 1500 if big else 150
    progs = []
    for i in range(n):
        kw = {}
        if i % 3 == 0:
            kw = dict(max_funcs=5, max_depth=4, max_expr_nodes=20)
        if i % 7 == 0:
            kw["comments"] = True
        progs.append(families.programs(rng, 1, **kw)[0])
    class _P:      # hand-written conforming shapes outside the generator, same oracle
        pass
    for nm, tx in families.extra_conforming():
        q = _P(); q.name, q.text, q.kind, q.productions, q.functions, q.items = nm, tx, "c", {}, [1, 2], [1, 2, 3, 4]
        progs.append(q)
    # a conforming source file is conforming whatever it is called (dots, a leading underscore, capitals, a hyphen)
    for p0 in [p for p in progs if p.name.endswith(".c")][: (60 if big else 8)] + progs[-3:]:
        for alt in (families.name_variants(p0.name) if big else rng.sample(families.name_variants(p0.name), 2)):
            q = _P(); q.name, q.text, q.kind, q.productions, q.functions, q.items = alt, p0.text, "c", {}, [1, 2], [1, 2, 3, 4]
            progs.append(q)
    # every binary operator between every kind of operand, correctly spaced: nothing is reported on that line
    from props.C02 import BIN, LEFT, RIGHT
    # operands that end or begin like something else: sizeof of pointer and user types, casts of them, dereferences
    LEFT = dict(LEFT, **{"sizeof-tp": "sizeof(t_list *)", "sizeof-tpp": "sizeof(t_node **)", "sizeof-sp": "sizeof(struct s_x *)", "sizeof-cp": "sizeof(char *)",
                         "sizeof-t": "sizeof(t_list)", "sizeof-expr": "sizeof(*p)", "castp": "(t_list *)p == 0", "deref": "*p", "idx2": "t[1][2]"})
    RIGHT = dict(RIGHT, **{"sizeof-tp": "sizeof(t_list *)", "sizeof-sp": "sizeof(struct s_x **)", "par": "(n + 1)", "deref": "*p", "cast": "(int)b"})
    combos = [(op, lk, rk) for op in BIN for lk in LEFT for rk in RIGHT]
    from impl import pipeline as _pipe
    # `*` and `&` double as pointer and address signs: every pair of operands around them, always
    for op, lk, rk in (combos if big else rng.sample(combos, 250) + [c for c in combos if c[0] in ("*", "&")]):
        src = "int\tf(int a, int b)\n{\n\tx = %s %s %s;\n\treturn (a);\n}\n" % (LEFT[lk], op, RIGHT[rk])
        r = _pipe("m.c", src)
        res.count("conforming.matrix", 1)
        bad = [(d[0], d[3][0][1]) for d in r["diags"] if d[3] and d[3][0][0] == 3] if r["outcome"] == "ok" else [(r["outcome"], 0)]
        if bad:
            res.report(f"conforming:{bad[0][0]}", f"`{LEFT[lk]} {op} {RIGHT[rk]}` (left={lk}, right={rk}) is reported: {bad[:3]}",
                       {"kind": "conforming-line", "name": "m.c", "src": src, "line": 3})
    outs = faults.run_many([(p.name, p.text) for p in progs])
    from impl import pipeline
    prods = collections.Counter()
    for p, (o, m) in zip(progs, outs):
        res.count("conforming", 1, **{p.kind: 1})
        prods.update(p.productions)
        if len(p.functions) + len(p.items) > 3:
            res.nontriv(("c", p.text))
        rp = {"kind": "conforming", "name": p.name, "src": p.text}
        if o != "ok":
            res.report(o if o != "fatal" else "conforming:fatal", f"{p.name}: a conforming program ends with {o} {m or ''}", rp)
            continue
        r = pipeline(p.name, p.text)
        errs = [(d[0], d[3][0][0], d[3][0][1]) for d in r["diags"] if d[2] == "Error"]
        if errs or r["status"] != "OK":
            res.report(f"conforming:{errs[0][0] if errs else 'status'}", f"{p.name}: conforming program reported {r['status']}: {errs[:4]}", rp)
    res.streams["conforming"]["productions_hit"] = len(prods)
    res.streams["conforming"]["least_hit"] = sorted(prods.items(), key=lambda kv: kv[1])[:8]
    # through the CLI: `OK!` and exit status 0
    tmp = tempfile.mkdtemp(prefix="verif_c01_")
    try:
        sample = rng.sample(progs, 12 if big else 4)
        for p in sample:
            open(os.path.join(tmp, p.name), "w").write(p.text)
        names = sorted({p.name for p in sample})
        out = run_cli(names, tmp)
        res.count("cli", 1)
        okl = [l for l in out["stdout"].split("\n") if l.endswith(": OK!")]
        if out["exit"] != 0 or len(okl) != len(names):
            res.report("conforming:cli", f"CLI on {names}: exit {out['exit']}, verdicts {[l for l in out['stdout'].split(chr(10)) if l.endswith('!')]}",
                       {"kind": "conforming-cli", "files": {p.name: p.text for p in sample}})
    finally:
        shutil.rmtree(tmp, ignore_errors=True)
    # conforming files whose comments and strings hold characters outside ASCII (one column each), on lines of exactly
    # 80 columns: stored as UTF-8 and read by the real command line
    import diskcheck
    from props.C03 import padx
    for ch in (diskcheck.NON_ASCII if big else rng.sample(diskcheck.NON_ASCII, 2)):
        nm = "ft_usage.c"
        body = ("\n" + padx("/* ", 77, ch) + " */\n" + padx("// ", 80, ch) + "\n\nint\tft_usage(char *msg)\n{\n" + padx("\tmsg = \"", 78, ch) + "\";\n"
                + "\treturn (msg[0] == '" + ch[0] + "');\n}\n")
        src = families.header.header42(nm) + body
        got = diskcheck.from_disk({nm: src})
        res.count("conforming.disk", 1)
        res.nontriv(("disk", ch))
        ent = (got["files"].get(nm) or [None])[0]
        errs = [x for x in (ent["diags"] if ent else []) if x[0] == "Error"]
        if ent is None or ent["status"] != "OK" or errs or got["exit"] != 0:
            res.report(f"conforming:{errs[0][1] if errs else 'cli'}", f"{nm} with {ch!r} in comments and strings, read from disk: {ent and ent['status']}, exit {got['exit']}, {errs[:3]}",
                       {"kind": "conforming-disk", "name": nm, "src": src})
    res.sample({"conforming": progs[0].text[880:1300]})


def replay(rp):
    from impl import pipeline
    if rp.get("kind") == "conforming-line":
        r = pipeline(rp["name"], rp["src"])
        bad = [(d[0], d[3][0][1]) for d in r["diags"] if d[3] and d[3][0][0] == rp["line"]]
        print(rp["src"]); print("on line", rp["line"], ":", bad)
        return 1 if (bad or r["outcome"] != "ok") else 0
    if rp.get("kind") == "conforming-disk":
        import diskcheck
        got = diskcheck.from_disk({rp["name"]: rp["src"]})
        ent = (got["files"].get(rp["name"]) or [None])[0]
        print(rp["src"][860:]); print("from disk:", ent, "exit", got["exit"])
        return 0 if (ent and ent["status"] == "OK" and got["exit"] == 0) else 1
    if rp.get("kind") != "conforming":
        print("replay:", rp.get("kind"), rp.get("broken"))
        return 1
    r = pipeline(rp["name"], rp["src"])
    errs = [(d[0], d[3][0][0], d[3][0][1]) for d in r["diags"] if d[2] == "Error"]
    print(rp["src"][860:]); print("outcome:", r["outcome"], r.get("status"), errs)
    return 0 if (r["outcome"] == "ok" and not errs) else 1
