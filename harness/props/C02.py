"""C02 — every enforced Norm violation is reported on its line."""
import os
import random
import shutil
import tempfile
import collections

import families
from gen import mutate

LEVEL_NOTE = [
    "C02_full (every operator of the violation catalogue of DESIGN §4.2, at every applicable site of every conforming program, yields its code on the edited line) is NOT proved. Proved fragments (C02.v82_line_too_long, counters_fire, verdict_error and by import C13.reject_no_header, C14.*): the rule emits the code when the statement it is handed contains the pattern — for line length, header, include guard and the four counters; verdict and exit status follow from C04 once an Error-level diagnostic exists",
    "end to end, for EVERY rule table (C02.ternary_e2e / ternary_sound, C03.long_line_reported): in every file that reaches a verdict each `?` token gets TERNARY_FBIDDEN at its position and each over-long line ending in a newline token gets LINE_TOO_LONG — CheckTernary and CheckLineLen run after every matched primary and the statements tile the token list (C07); tie: `always` stream (source -> model lexer -> engine replaying the observed decisions -> the two checks, compared with what the real rules emitted)",
    "C02.trailing_space_e2e (V01): for every rule table a trailing blank run starting with a SPACE gets SPC_BEFORE_NL at that SPACE (CheckSpacing ported completely; loop reachability lemma); tie: `always` stream incl. random blank-space perturbations",
    "C02.many_instr_e2e / many_instr_sound (V45): a statement matched by one of the nine primaries after which the registry runs CheckManyInstructions (dependency list regenerated from the real registry) whose first token is not the first thing on its line — stated on the raw text via C09.column_one_iff_line_start — gets TOO_MANY_INSTR there, and the rule reports nowhere else; tie: `always` stream",
    "decision per (program, operator, site): the catalogue oracle runs the real pipeline on the edited program and looks for the operator's code on the edited line (harness/gen/mutate.py: 90 operators, validated on the unchanged tool; site classes where the tool is silent are listed in mutate.INCONSISTENT, recorded as known findings and replayed on every run)",
]
PARTIAL = [
    "C02_partial: the segmentation hypothesis (the edited line reaches the rule as a statement of the right kind) and every rule other than the ones named above are not modelled; decided per case by the oracle (per-operator hit counts in the evidence)",
]


def slug_of(opid, text, line):
    """site class of a listed silent violation: operator id + the edited line without blanks"""
    l = text.split("\n")[line - 1]
    return opid + "@" + "".join(ch for ch in l if ch not in " \t")[:24]


def known_silent(res):
    """the site classes where the tool is silent (mutate.INCONSISTENT with nothing reported) are
    replayed on the real code; each is reported under its own signature, which known_findings.json
    lists, for as long as the code is still missing"""
    from impl import pipeline
    for opid, text, (codes, line), got in mutate.INCONSISTENT:
        if got:
            continue        # reported under another name: a refinement of the catalogue, not a finding
        codes = codes if isinstance(codes, tuple) else (codes,)
        name = "x.h" if "#ifndef X_H" in text else "x.c"
        r = pipeline(name, text)
        res.count("known-silent", 1)
        found = r["outcome"] == "ok" and any(d[0] in codes and d[3] and d[3][0][0] == line for d in r["diags"])
        if not found:
            res.report("violation:missing:" + slug_of(opid, text, line), f"{opid}: {list(codes)} not reported on line {line}",
                       {"kind": "violation", "name": name, "src": text, "operator": opid, "codes": list(codes), "line": line})


# ---- matrices: a violation is a violation whatever stands around it.  Every combination of what can stand to the
# left and to the right of a binary operator, and of the types in a parameter list, gets the edit; the combinations
# where the unchanged tool is silent are left out by the stated predicates (they are instances of the listed findings
# "V50 before `! ~ - * & (`, a constant after + and -", "V49 `+`/`-` after `)`", "V26 typedef name before typedef name").
BIN = ["+", "-", "*", "/", "%", "<", ">", "<=", ">=", "==", "!=", "&&", "||", "&", "|", "^", "<<", ">>"]
LEFT = {"id": "a", "num": "42", "chr": "'z'", "idx": "t[1]", "call": "f(a)", "par": "(a)", "mem": "p->m", "dot": "s.m", "str": "\"s\"[0]",
        "sizeof": "sizeof(a)", "cast": "(int)a"}
RIGHT = {"id": "b", "num": "7", "chr": "'y'", "idx": "t[2]", "call": "g(b)", "addr": "&b", "sizeof": "sizeof(b)", "str": "\"s\"[1]", "neg": "-b"}
PTYPES = {"int": "int %s", "charp": "char *%s", "voidp": "void *%s", "cchar": "const char *%s", "tlist": "t_list *%s", "uns": "unsigned int %s",
          "struct": "struct s_x *%s", "size_t": "size_t %s", "charpp": "char **%s", "long": "long long %s", "tval": "t_val %s", "arr": "int %s[3]",
          "fp": "int (*%s)(int)", "cvoidp": "const void *%s"}


def operator_matrix(rng, n):
    cases = []
    for op in BIN:
        for lk, l in LEFT.items():
            for rk, r in RIGHT.items():
                pm = op in "+-"
                if not (pm and lk in ("call", "par")):
                    cases.append((f"before {op} left={lk} right={rk}", f"{l}{op} {r}", f"{l} {op} {r}", "SPC_BFR_OPERATOR"))
                if not (pm and (rk in ("num", "neg") or lk in ("call", "par"))) and not (rk == "neg" and op == "-"):
                    cases.append((f"after {op} left={lk} right={rk}", f"{l} {op}{r}", f"{l} {op} {r}", "SPC_AFTER_OPERATOR"))
    return cases if n is None else rng.sample(cases, min(n, len(cases)))


def param_matrix(rng, big):
    import itertools
    names = ["aa", "bb", "cc"]
    tdef = ("size_t", "tval", "tlist")
    out = []
    for n in (1, 2, 3):
        for combo in itertools.product(PTYPES, repeat=n):
            if n == 3 and rng.random() > (0.05 if big else 0.008):
                continue
            if n == 2 and not big and rng.random() > 0.5:
                continue
            for form in ("prototype", "definition"):
                for k in range(n):
                    if combo[k] in ("size_t", "tval") and k + 1 < n and combo[k + 1] in tdef:
                        continue
                    ps = [PTYPES[t] % names[i] for i, t in enumerate(combo)]
                    ps[k] = PTYPES[combo[k]].replace(" %s", "").replace("%s", "")
                    head = "int\tf(%s)" % ", ".join(ps)
                    out.append((f"{form} ({', '.join(combo)}) unnamed #{k + 1}", head + (";\n" if form == "prototype" else "\n{\n\treturn (0);\n}\n")))
    return out


def matrices(res, rng, big):
    from impl import pipeline
    for what, expr, good, code in operator_matrix(rng, None if big else 500):
        mk = lambda e: "int\tf(int a, int b)\n{\n\tx = %s;\n\treturn (a);\n}\n" % e
        r = pipeline("m.c", mk(expr))
        res.count("matrix.operator", 1)
        res.nontriv(("mx", expr))
        rp = {"kind": "violation", "name": "m.c", "src": mk(expr), "operator": "matrix:" + what, "codes": [code], "line": 3}
        if r["outcome"] != "ok" or not any(d[0] == code and d[3] and d[3][0][0] == 3 for d in r["diags"]):
            res.report("violation:matrix-operator-spacing:missing", f"`{expr}` ({what}): {code} not reported on line 3 ({r['outcome']}); got {[d[0] for d in r.get('diags', []) if d[3] and d[3][0][0] == 3]}", rp)
    for what, text in param_matrix(rng, big):
        r = pipeline("p.c", text)
        res.count("matrix.params", 1)
        res.nontriv(("mp", text))
        rp = {"kind": "violation", "name": "p.c", "src": text, "operator": "matrix:" + what, "codes": ["MISSING_IDENTIFIER"], "line": 1}
        if r["outcome"] != "ok" or not any(d[0] == "MISSING_IDENTIFIER" and d[3] and d[3][0][0] == 1 for d in r["diags"]):
            res.report("violation:matrix-unnamed-parameter:missing", f"{what}: MISSING_IDENTIFIER not reported on line 1 ({r['outcome']}); got {[d[0] for d in r.get('diags', [])]}", rp)


def run(res, tier, br, model_ok=True, search=False):
    from impl import pipeline, run_cli
    known_silent(res)
    matrices(res, random.Random(res.seed + 149), tier == "thorough" or search)
    rng = random.Random(res.seed + 139)
    big = tier == "thorough" or search
    progs = families.programs(rng, 120 if big else 24, kinds=("c", "c", "h"))
    hits = collections.Counter()
    cli_cases = []
    def site_class(p, site, text):
        """coarse class of an edit site: the class string the operator attaches to it (if any) and the character
        classes around the first place where the edited text differs from the original"""
        cls = next((x for x in site if isinstance(x, str)), "")
        a, b = p.text, text
        i = 0
        n = min(len(a), len(b))
        while i < n and a[i] == b[i]:
            i += 1
        ctx = a[max(0, i - 2): i + 2]
        shape = "".join("a" if ch.isalpha() or ch == "_" else "0" if ch.isdigit() else ch for ch in ctx)
        return cls + "|" + shape

    for op in mutate.OPERATORS:
        groups = collections.defaultdict(list)
        order = list(progs)
        rng.shuffle(order)
        seen = 0
        for p in order:
            try:
                sites = op.sites(p)
            except Exception:
                sites = []
            for site in sites[:40]:
                try:
                    text, line = op.apply(p, site)
                except Exception:
                    continue
                groups[site_class(p, site, text)].append((p, site, text, line))
                seen += 1
            if seen > (400 if big else 120):
                break
        chosen = []
        for key in sorted(groups):
            lst = groups[key]
            rng.shuffle(lst)
            chosen += lst[: (3 if big else 1)]
        rng.shuffle(chosen)
        for p, site, text, line in chosen[: (40 if big else 8)]:
            if True:
                if True:
                    r = pipeline(p.name, text)
                    res.count("catalogue", 1)
                    res.nontriv((op.id, text))
                    hits[op.id] += 1
                    codes = op.code if isinstance(op.code, (tuple, list, set)) else (op.code,)
                    rp = {"kind": "violation", "name": p.name, "src": text, "operator": op.id, "codes": list(codes), "line": line}
                    if r["outcome"] not in ("ok",):
                        if r["outcome"] == "fatal":
                            res.report(f"violation:{op.id}:fatal", f"{op.id} on {p.name} line {line}: fatal {r.get('msg')} instead of {codes}", rp)
                        else:
                            res.report(r["outcome"], f"{op.id} on {p.name}: {r['outcome']}", rp)
                        continue
                    found = any(d[0] in codes and d[3] and d[3][0][0] == line for d in r["diags"])
                    if not found:
                        near = [(d[0], d[3][0][0]) for d in r["diags"] if d[3] and abs(d[3][0][0] - line) <= 1]
                        res.report(f"violation:{op.id}:missing", f"{op.id} on {p.name}: {list(codes)} not reported on line {line} ({text.split(chr(10))[line - 1].strip()!r}); nearby {near[:5]}", rp)
                    elif r["status"] != "Error":
                        res.report(f"violation:{op.id}:status", f"{op.id} on {p.name}: code reported but status {r['status']}", rp)
                    elif len(cli_cases) < (10 if big else 3) and rng.random() < 0.05:
                        cli_cases.append((p.name, text))
                    # a violation is a violation whatever the source file is called
                    if found and r["status"] == "Error" and p.name.endswith(".c") and (big or hits[op.id] == 1):
                        alt = rng.choice(families.name_variants(p.name))
                        r2 = pipeline(alt, text)
                        res.count("catalogue.names", 1)
                        if r2["outcome"] != "ok" or not any(d[0] in codes and d[3] and d[3][0][0] == line for d in r2["diags"]):
                            res.report(f"violation:{op.id}:missing", f"{op.id} in a file called {alt}: {list(codes)} not reported on line {line} ({r2['outcome']}), although it is in {p.name}",
                                       {"kind": "violation", "name": alt, "src": text, "operator": op.id, "codes": list(codes), "line": line})
    for name, text, code, line in families.extra_violating():
        r = pipeline(name, text)
        res.count("catalogue.wrapped", 1)
        res.nontriv(("w", text))
        rp = {"kind": "violation", "name": name, "src": text, "operator": "wrapped:" + code, "codes": [code], "line": line}
        if r["outcome"] != "ok" or not any(d[0] == code and d[3] and d[3][0][0] == line for d in r["diags"]):
            res.report(f"violation:wrapped-{code}:missing", f"{name}: {code} not reported on line {line} ({r['outcome']}); got {[(d[0], d[3][0][0]) for d in r['diags']][:6]}", rp)
    if model_ok:
        import alwayscorr
        e2e = []
        for op in mutate.OPERATORS:
            codes = op.code if isinstance(op.code, (tuple, list, set)) else (op.code,)
            if not ({"TERNARY_FBIDDEN", "LINE_TOO_LONG", "INVALID_HEADER", "MIXED_SPACE_TAB", "SPACE_EMPTY_LINE",
                     "SPACE_REPLACE_TAB", "SPC_BEFORE_NL", "CONSECUTIVE_SPC"} & set(codes)):
                continue
            for p in progs[: (12 if big else 4)]:
                try:
                    sites = op.sites(p)
                    if sites:
                        e2e.append((p.name, op.apply(p, rng.choice(sites))[0]))
                except Exception:
                    pass
        e2e += [(name, text) for name, text, code, line in families.extra_violating() if code in ("TERNARY_FBIDDEN", "LINE_TOO_LONG")]
        for p in progs[: (20 if big else 6)]:
            e2e += [(p.name, t) for t in alwayscorr.whitespace_variants(rng, p.text, 12 if big else 5)]
        alwayscorr.check(res, e2e)
    res.streams["catalogue"]["operators"] = len(mutate.OPERATORS)
    res.streams["catalogue"]["operators_hit"] = len(hits)
    res.streams["catalogue"]["least_hit"] = sorted(hits.items(), key=lambda kv: kv[1])[:6]
    tmp = tempfile.mkdtemp(prefix="verif_c02_")
    try:
        for name, text in cli_cases:
            open(os.path.join(tmp, name), "w").write(text)
            out = run_cli([name], tmp)
            res.count("cli", 1)
            if out["exit"] == 0 or (name + ": Error!") not in out["stdout"]:
                res.report("violation:cli-exit", f"CLI on a violating {name}: exit {out['exit']}", {"kind": "violation-cli", "name": name, "src": text})
    finally:
        shutil.rmtree(tmp, ignore_errors=True)
    res.sample({"operators": [o.id for o in mutate.OPERATORS[:8]]})


def replay(rp):
    from impl import pipeline
    if rp.get("kind") != "violation":
        print("replay:", rp.get("kind"), rp.get("broken"))
        return 1
    r = pipeline(rp["name"], rp["src"])
    found = any(d[0] in rp["codes"] and d[3] and d[3][0][0] == rp["line"] for d in r["diags"])
    lines = rp["src"].split("\n")
    print("operator:", rp["operator"], "expects", rp["codes"], "on line", rp["line"], ":", repr(lines[rp["line"] - 1]) if rp["line"] <= len(lines) else "")
    print("outcome:", r["outcome"], [(d[0], d[3][0][0]) for d in r["diags"]][:12])
    return 0 if found else 1
