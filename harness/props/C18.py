"""C18 — diagnostics do not depend on how identifiers are spelled."""
import random

import families
import meta

LEVEL_NOTE = [
    "theorem C18.rename_token (token level): two identifiers of the same length, neither a keyword, go from the same lexer state to the same state through the whole sub-lexer chain; the IDENTIFIER tokens differ only in their spelling",
    "theorems C18.ident_body / rename_same_length / keyword_names (lexer half): the identifier sub-lexer's result depends on the identifier's length and on membership in the keyword table only. Tie: `lex` correspondence + the renaming oracle below on the real pipeline",
]
PARTIAL = [
    "C18_engine_partial: that rules read identifier spellings only through length, fixed-prefix tests (g_ s_ t_ u_ e_), character classes and equality with fixed names is not proved (unported rules); Generated/Facts.lean lists the modules that read `.value` (the obligation value_readers_known flags a NEW reader); the renaming oracle runs the whole pipeline on both texts",
]


def run(res, tier, br, model_ok=True, search=False):
    from norminette.lexer.dictionary import keywords
    rng = random.Random(res.seed + 101)
    big = tier == "thorough" or search
    progs = families.programs(rng, 60 if big else 12)
    viol = families.violating(rng, progs[: (40 if big else 8)], per_prog=3)
    bases = [(p.name, p.text) for p in progs] + [(p.name, t) for p, op, site, t, line in viol]
    bases += [
        ("glob.c", "int\targ_count;\nchar\t*msg_buf;\nint\tg_ok;\nstatic int\tmyvar;\n"),
        ("ut.h", "#ifndef UT_H\n# define UT_H\n\ntypedef struct __node\tt_node;\nstruct\t__pair\n{\n\tint\ta;\n};\ntypedef struct s_list\n{\n\tint\tBadName;\n}\tt_list;\nenum e_x\n{\n\tAA,\n\tbb\n};\n\n#endif\n"),
        ("fn.c", "int\tMyFunc(int Aa, int b_b)\n{\n\tint\tlocalVar;\n\n\tlocalVar = Aa + b_b;\n\treturn (localVar);\n}\n#define lower 1\n#define UPPER_2 2\n"),
    ]
    bases += [
        # names used where rules look at spellings: array sizes given by macros, struct members, labels, enum constants,
        # function-like names, names next to keywords, typedef names used as types
        ("arr.c", "#define BUF_XK 2048\n#define N_MAX 3\n\nint\tf(void)\n{\n\tchar\t\tbuf[BUF_XK];\n\tint\t\t\ttab[N_MAX][BUF_XK];\n\tstatic int\tcnt[N_MAX];\n\n"
                  "\tbuf[0] = tab[0][0] + cnt[N_MAX - 1];\n\treturn (sizeof(buf) + BUF_XK);\n}\n"),
        ("mem.c", "int\tf(t_conf *cfg, t_list **lst)\n{\n\tget_conf(cfg)->value_ = cfg->left || cfg->right;\n\tft_last(*lst)->next = cfg->item;\n"
                  "\tcfg->cb(lst, cfg->size_);\n\treturn ((t_size)cfg->count * lst_len(*lst));\n}\n"),
        ("use.c", "typedef int\tt_size;\n\nstatic t_size\tg_total;\nextern char\t**environ;\n\nt_size\tcount_it(t_size first_, t_size _second)\n{\n"
                  "\tt_size\tresult_;\n\n\tresult_ = first_ * _second;\n\treturn (result_ + g_total);\n}\n"),
    ]
    bases += [
        # names that contain one another, and a macro whose name contains what the guard should be called
        ("ft.h", "#ifndef FT_H\n\n# define FT_HEIGHT 3\n# define MY_FT_H_MAX 4\n# define FT_ 5\n\nint\tft_a(int ft, int ft_h, int ft_height);\n\n#endif\n"),
        ("sub.c", "#define N 1\n#define N_MAX 2\n#define MAX_N 3\n#define _GNU_SRC 4\n#define __B_LEN 5\n\nint\tcount(int counter, int count_it, int recount)\n{\n"
                  "\treturn (counter + count_it + recount + N + N_MAX + MAX_N + _GNU_SRC + __B_LEN);\n}\n"),
    ]
    bases += [
        # macros as operands of #if / #elif expressions, variables next to `*` and `&`
        ("cond.c", "#define ENABLED 1\n#define LEVEL 2\n#define VERBOSE 0\n\n#if ENABLED == 1\n# define A_MODE 1\n#elif ENABLED && LEVEL > 1\n# define A_MODE 2\n#endif\n"
                   "#if VERBOSE\n# define B_MODE 3\n#endif\n#if !defined(LEVEL) || (VERBOSE + ENABLED) * 2 > LEVEL\n# define C_MODE 4\n#endif\n\n"
                   "int\tscale(int delta, int speed, int *count)\n{\n\tint\tres;\n\n\tres = delta * speed;\n\tres = res + delta * *count;\n\tres = (delta) * speed & *count;\n"
                   "\treturn (res * delta);\n}\n"),
    ]
    bases += [
        # macros used in every kind of expression and declarator, enum constants, function-like macros that stringize
        # and paste their parameters (inside and outside a conditional block)
        ("mac.c", "#define TAX 9\n#define SPICE 2\n#define COMMB 3\n#define RETURM 4\n#define NEWLINK 5\n\nint\tg_buf[TAX];\n\nenum e_k\n{\n\tAAA = SPICE,\n\tBBB\n};\n\n"
                  "int\tuse(int a, int c)\n{\n\tint\ttab[COMMB];\n\n\tc = a * TAX;\n\ttab[0] = SPICE + COMMB;\n\tif (a == NEWLINK && c != BBB)\n\t\treturn (RETURM);\n\treturn (TAX);\n}\n"),
        ("str.h", "#ifndef STR_H\n# define STR_H\n\n# define STR(name) #name\n# define GLUE(a, b) a ## b\n# ifdef DEBUG\n#  define SHOW(val, fmt) printf(#val fmt, val)\n# endif\n\nint\tft_len(char *name);\n\n#endif\n"),
        ("zero.c", "#ifdef DEBUG\n# define GLUE(head, tail) head ## tail\n# define NAME(word) #word\n#endif\n\nint\tzero(int word, int tail)\n{\n\treturn (word - tail);\n}\n"),
    ]
    bases += families.repo_samples() if big else families.repo_samples()[::4]
    for name, src in bases:
        o0, d0, _ = meta.diags(name, src)
        if o0 not in ("ok", "fatal"):
            continue
        hand = name in ('cond.c', 'sub.c', 'ft.h', 'mac.c', 'str.h', 'zero.c', 'fn.c', 'use.c')
        todo = [meta.renaming(src, name, rng, keywords) for _ in range(8 if big else (10 if hand else 4))]
        if hand:
            # systematically: each lower-case name with each conventional ending / keyword beginning, one at a time
            todo += meta.affix_renamings(src, name, keywords)
        for rn in todo:
            if not rn:
                continue
            new, mapping = rn
            if new == src:
                continue
            o1, d1, _ = meta.diags(name, new)
            res.count("rename", 1)
            res.nontriv(("rn", new))
            if (o0, d0) != (o1, d1):
                gone = [x for x in d0 if x not in d1][:3]
                came = [x for x in d1 if x not in d0][:3]
                # which single name is responsible (smaller replay)
                res.report("rename:diagnostics-differ", f"{name}: renaming {dict(list(mapping.items())[:6])}...: outcome {o0}->{o1}, gone {gone}, new {came}",
                           {"kind": "rename", "name": name, "original": src, "renamed": new, "mapping": mapping})
    res.sample({"rename": bases[0][0]})


def replay(rp):
    if rp.get("kind") != "rename":
        print("replay names a broken obligation/correspondence:", rp.get("broken"))
        return 1
    a = meta.diags(rp["name"], rp["original"]); b = meta.diags(rp["name"], rp["renamed"])
    print("mapping:", rp["mapping"]); print("original:", a[0], a[1]); print("renamed :", b[0], b[1])
    return 0 if (a[0], a[1]) == (b[0], b[1]) else 1
