"""C06 — the verdict is a pure function of the file."""
import os
import sys
import json
import random
import subprocess
import multiprocessing as mp

import families
from core import REPO, PY, HERE
from gen import header

LEVEL_NOTE = [
    "theorems C06.registry_perm / dependencies_perm: for every permutation of the rules directory listing the primaries and every dependency list are the ones the real code computed (stable sort + distinct keys; obligations priorities_nodup / rule_names_nodup re-checked on the regenerated Generated/Rules.lean); A9 os.listdir returns some permutation",
    "theorem C06.no_shared_state: frame facts regenerated from the AST (no class-level mutable attribute mutated through instances, no module-level object mutated by a function, no `global`); the scanner harness/facts.py is trusted (T1)",
    "purity inside one file run is by construction of the functional model; the tie to the code for 'alone = twice = after any history = any order' is the history stream: every file is run alone in a fresh interpreter and again inside random histories sharing one interpreter and one Registry, and under permuted listings; results must be identical",
]
PARTIAL = [
    "C06_history is validated by the history stream, not proved end to end: the per-file state of Context/Scope/PreProcessors is created afresh in Context.__init__ (read), the only process-level writers found by facts.py are Rule.__new__ (context/name, overwritten before use) and the recursion limit in IsPreprocessorStatement",
]

WORKER = os.path.join(HERE, "history_worker.py")


def run_worker(files, listdir_seed=None, timeout=120, R=None, reclimit=None):
    env = dict(os.environ, PYTHONPATH=REPO)
    p = subprocess.run([PY, WORKER], input=json.dumps({"files": files, "listdir_seed": listdir_seed, "R": R, "reclimit": reclimit}),
                       stdout=subprocess.PIPE, stderr=subprocess.PIPE, text=True, timeout=timeout, env=env)
    if p.returncode != 0:
        return {"error": p.stderr[-400:]}
    return json.loads(p.stdout.strip().split("\n")[-1])


def _w(args):
    return run_worker(*args)


def _wk(args):
    files, kw = args
    return run_worker(files, **kw)


def special_files():
    h = lambda n: header.header42(n)
    out = []
    # guard pairs: an earlier file defines exactly the symbol a later header forgot to define
    out.append(("foo.h", h("foo.h") + "\n#ifndef FOO_H\n# define FOO_H\n\nint\tf(void);\n\n#endif\n"))
    out.append(("foo.h", h("foo.h") + "\n#ifndef FOO_H\n\nint\tf(void);\n\n#endif\n"))
    out.append(("bar.c", h("bar.c") + "\n#define FOO_H 1\n#define BAR 2\n\nint\tmain(void)\n{\n\treturn (BAR);\n}\n"))
    out.append(("inc.c", h("inc.c") + "\n#include <a.h>\n#include \"foo.h\"\n\nint\tg_v;\n"))
    # definition before a multi-line prototype with another alignment; function names shared between files
    out.append(("ord.c", "int\tmain(void)\n{\n\treturn (0);\n}\n\nstatic long long\tfoo(int a,\n\t\t\t\t\t\tint b);\n"))
    out.append(("ord2.c", "static long long\tfoo(int a,\n\t\t\t\t\t\tint b);\n\nint\tmain(void)\n{\n\treturn (0);\n}\n"))
    # nested #if (recursion limit handling), unbalanced preprocessor, fatal files
    out.append(("pp.c", h("pp.c") + "\n#if defined(A) && (B > (1 + (2 * (3))))\n# define X 1\n#else\n# define X 2\n#endif\n\nint\tg_p = X;\n"))
    out.append(("ppbad.c", "#if (((((((((((1)))))))))))\n#endif\n#else\n"))
    out.append(("fatal.c", h("fatal.c") + "\n#foo\n"))
    # a fatal error raised INSIDE the #if expression parser (where the process recursion limit is lowered),
    # and a probe whose analysis needs a recursion depth above that lowered limit
    # member names spelled like keywords after a call: rules that consult keyword tables built once per process
    out.append(("kwmember.c", "int\tf(t_c *c)\n{\n\tget_conf(c)->inline = c->a || c->b;\n\tlast(c)->next = c;\n\tlast(c)->restrict = c->a && c->b, c->d;\n\treturn (0);\n}\n"))
    out.append(("ppfatal.c", "#if (\n"))
    out.append(("deep.c", "int\tf(int a)\n{\n\treturn (" + "(" * 120 + "a" + ")" * 120 + ");\n}\n"))
    out.append(("fatal2.c", "int\tmain(void)\n{\n\treturn (0);\n}\n) )"))
    out.append(("many.c", h("many.c") + "".join(f"\nint\tf{i}(void)\n{{\n\treturn ({i});\n}}\n" for i in range(7))))
    out.append(("vars.c", h("vars.c") + "\nint\tf(int aa, int bb)\n{\n\tint\tcc;\n\tint\tdd;\n\n\tcc = aa;\n\tdd = bb;\n\treturn (cc + dd);\n}\n"))
    # the same name, other content (the same characters at the same places play other roles): anything remembered per
    # name or per position would answer for the wrong file
    out.append(("calc.c", "int\tf(int aaa, int b)\n{\n\tint\tn;\n\n\tn = aaa * b;\n\treturn (n & b);\n}\n"))
    out.append(("calc.c", "int\tf(int a, int *b)\n{\n\tint\tn;\n\n\tn = a - *b;\n\treturn (n, &b);\n}\n"))
    out.append(("calc.c", "int\tf(int a, int *b)\n{\n\tint\tn;\n\n\tn = (a)*b [0];\n\treturn (n);\n}\n"))
    out.append(("defs.c", "#define second_value (1 + 2)\n#define F(x) (x)\n\nint\tg_d = second_value;\n"))
    out.append(("iff.c", "#if 1\n# define A 1\n#elif 2\n# define A 2\n#endif\n\nint\tg_i = A;\n"))
    out.append(("utype.h", h("utype.h") + "\n#ifndef UTYPE_H\n# define UTYPE_H\n\ntypedef struct s_a\n{\n\tint\tx;\n}\tt_a;\n\n#endif\n"))
    return out


def run(res, tier, br, model_ok=True, search=False):
    rng = random.Random(res.seed + 61)
    big = tier == "thorough" or search
    progs = families.programs(rng, 40 if big else 8)
    viol = families.violating(rng, progs[: (20 if big else 4)], per_prog=2)
    fam = [(p.name, p.text) for p in progs] + [(p.name, t) for p, op, site, t, line in viol]
    samples = families.repo_samples()
    fam += samples if big else rng.sample(samples, 12)
    fam += special_files()
    # baseline: every file alone in a fresh interpreter
    with mp.Pool(min(16, mp.cpu_count())) as pool:
        base = pool.map(_w, [([f], None) for f in fam])
        # histories: several files in one interpreter, one Registry
        nh = 120 if big else 20
        hist = []
        for _ in range(nh):
            k = rng.randint(2, 8)
            seq = [rng.randrange(len(fam)) for _ in range(k)]
            if rng.random() < 0.3:
                seq.append(seq[0])        # the same file twice
            hist.append(seq)
        # targeted: every ordered pair of special files (state that could leak is small and specific)
        nsp = len(special_files())
        sp0 = len(fam) - nsp
        for i in range(nsp):
            hist.append([sp0 + i, sp0 + i])
            for j in range(nsp):
                leaves_state = fam[sp0 + i][0] in ("ppfatal.c", "ppbad.c", "fatal.c", "fatal2.c", "pp.c")
                if i != j and (big or leaves_state or (i + j) % 3 == 0):
                    hist.append([sp0 + i, sp0 + j])
        # a program and a variant of it under the same name, both orders
        byname = {}
        for i, (nm, _) in enumerate(fam):
            byname.setdefault(nm, []).append(i)
        for nm, idxs in byname.items():
            if len(idxs) >= 2:
                for a in idxs:
                    for b in idxs:
                        if a != b and (big or rng.random() < 0.5 or nm == "calc.c"):
                            hist.append([a, b])
        hres = pool.map(_w, [([fam[i] for i in seq], None) for seq in hist])
        # permuted listings: reversed and shuffled directory listing, all files in one go
        perms = [-1] + [rng.randint(1, 10 ** 6) for _ in range(6 if big else 2)]
        pres = pool.map(_w, [(fam, s) for s in perms])
        # the same under settings of the host run: an option list shared by all files of the run (argparse gives
        # ONE list object), and a process recursion limit that is not the interpreter's default
        settings = [{"R": ["CheckDefine"]}, {"R": ["CheckForbiddenSourceHeader"]}, {"reclimit": 2600}, {"reclimit": 1700, "R": ["CheckDefine"]}]
        sjobs = []
        for st in settings:
            seqs = [[sp0 + i for i in rng.sample(range(nsp), min(nsp, 6))] for _ in range(4 if big else 2)]
            seqs += [[rng.randrange(len(fam)) for _ in range(rng.randint(2, 6))] for _ in range(6 if big else 2)]
            for seq in seqs:
                sjobs.append((st, seq, None))
                for i in seq:
                    sjobs.append((st, [i], i))
        sres = pool.map(_wk, [([fam[i] for i in seq], st) for st, seq, _ in sjobs])
    sref = {}
    for (st, seq, single), r in zip(sjobs, sres):
        if single is not None and "error" not in r:
            sref[(json.dumps(st, sort_keys=True), single)] = r["files"][0]
    for (st, seq, single), r in zip(sjobs, sres):
        res.count("history.settings", 1)
        files = [fam[i] for i in seq]
        if "error" in r:
            res.report("crash:worker", f"history {seq} under {st}: {r['error'][-200:]}", {"kind": "history", "files": files, "settings": st})
            continue
        for k, (i, fr) in enumerate(zip(seq, r["files"])):
            if fr.get("process_state_changed"):
                res.report("process-state-changed", f"{fam[i][0]} under {st}: the run changed {fr['process_state_changed']}",
                           {"kind": "history", "files": files, "index": k, "settings": st})
                break
            want = sref.get((json.dumps(st, sort_keys=True), i))
            if single is None and want is not None and fr != want:
                res.report("history-dependent", f"{fam[i][0]} after {[x[0] for x in files[:k]]} under {st}: {diffdesc(want, fr)}",
                           {"kind": "history", "files": files, "index": k, "alone": want, "in_history": fr, "settings": st})
                break
    cli_runs(res, rng, fam, base, big)
    ref = {}
    for (name, src), b in zip(fam, base):
        res.count("alone", 1)
        if "error" in b:
            res.report("crash:worker", f"{name} alone: {b['error'][-200:]}", {"kind": "history", "files": [[name, src]]})
            continue
        ref[(name, src)] = b["files"][0]
        if b["files"][0].get("diags"):
            res.nontriv(("f", src))
    for seq, h in zip(hist, hres):
        res.count("history", 1)
        res.nontriv(("h", tuple(seq)))
        files = [fam[i] for i in seq]
        if "error" in h:
            res.report("crash:worker", f"history {seq}: {h['error'][-200:]}", {"kind": "history", "files": files})
            continue
        for k, (f, r) in enumerate(zip(files, h["files"])):
            if r.get("process_state_changed"):
                res.report("process-state-changed", f"{f[0]}: the run changed {r['process_state_changed']}", {"kind": "history", "files": files, "index": k})
                break
            want = ref.get(tuple(f))
            if want is not None and r != want:
                res.report("history-dependent", f"{f[0]} after {[x[0] for x in files[:k]]}: {diffdesc(want, r)}",
                           {"kind": "history", "files": files, "index": k, "alone": want, "in_history": r})
                break
    for s, pr in zip(perms, pres):
        res.count("listing", 1)
        if "error" in pr:
            res.report("crash:worker", f"listing seed {s}: {pr['error'][-200:]}", {"kind": "listing", "seed": s})
            continue
        res.nontriv(("perm", s))
        if base and "error" not in base[0] and (pr["primaries"] != base[0]["primaries"] or pr["deps"] != base[0]["deps"]):
            res.broken.append(f"registry differs under listing permutation seed {s}: primaries {pr['primaries'][:6]}...")
        for f, r in zip(fam, pr["files"]):
            want = ref.get(tuple(f))
            # in one interpreter the files also share history; compare only when the plain (unpermuted) history agrees
            if want is not None and r != want:
                res.report("listing-dependent", f"{f[0]} under directory listing permutation {s}: {diffdesc(want, r)}",
                           {"kind": "listing", "seed": s, "file": list(f), "alone": want, "permuted": r})
                break
    res.sample({"history": [fam[i][0] for i in hist[0]]})


def cli_runs(res, rng, fam, base, big):
    """the real `main` over several files at once — the same text under several names, the same name in several
    folders: every file gets what it gets when it is checked alone"""
    import shutil, tempfile
    from impl import run_cli
    alone = {tuple(f): b["files"][0] for f, b in zip(fam, base) if "error" not in b}
    ok = [f for f in fam if alone.get(tuple(f), {}).get("outcome") == "ok"]
    lexical = [("esc.c", "char\t*g_s = \"a\\qb\";\n/*\n** " + "x" * 90 + "\n*/\nint\tg_i = 089;\n")]
    for k in range(6 if big else 2):
        d = tempfile.mkdtemp(prefix="verif_c06_")
        try:
            picks = rng.sample(ok, min(len(ok), 4)) + lexical
            argv, want = [], []
            for j, (nm, src) in enumerate(picks):
                ext = nm[-2:]
                for copy in range(3 if (nm, src) in lexical else rng.choice((1, 2))):
                    sub = f"d{j}_{copy}"
                    os.makedirs(os.path.join(d, sub), exist_ok=True)
                    # same text under another base name (only for .c: a header's guard follows its name), or the same name in another folder
                    fn = nm if (ext == ".h" or copy == 0) else f"copy{copy}_{nm}"
                    open(os.path.join(d, sub, fn), "w").write(src)
                    argv.append(os.path.join(sub, fn))
                    want.append((nm, src, fn))
            order = list(range(len(argv)))
            rng.shuffle(order)
            out = run_cli(["-f", "json"] + [argv[i] for i in order], d)
            res.count("history.cli", 1)
            rp = {"kind": "cli-run", "files": [[argv[i], want[i][1]] for i in order]}
            try:
                doc = json.loads([l for l in out["stdout"].split("\n") if l.startswith("{")][-1])
            except Exception:
                if out["exit"] is None or "Traceback" in out.get("stderr", ""):
                    res.report("crash:cli", f"multi-file run failed: {out.get('stderr', '')[-200:]}", rp)
                continue
            for i, f in zip(order, doc["files"]):
                nm, src, fn = want[i]
                ref = alone.get((nm, src))
                if ref is None and (nm, src) in lexical:
                    ref = run_worker([[nm, src]])["files"][0]
                    alone[(nm, src)] = ref
                got = [[e["level"], e["name"], e["highlights"][0]["lineno"], e["highlights"][0]["column"]] for e in f["errors"]]
                if ref is not None and ref.get("outcome") == "ok" and got != ref["diags"]:
                    res.report("history-dependent", f"{argv[i]} in a run of {len(argv)} files: {diffdesc(ref, {'outcome': 'ok', 'diags': got})}", rp)
                    break
        finally:
            shutil.rmtree(d, ignore_errors=True)


def diffdesc(a, b):
    if a.get("outcome") != b.get("outcome"):
        return f"outcome {a.get('outcome')} vs {b.get('outcome')}"
    da, db = a.get("diags") or [], b.get("diags") or []
    only_a = [d for d in da if d not in db]
    only_b = [d for d in db if d not in da]
    return f"only alone: {only_a[:4]}; only in context: {only_b[:4]}"


def replay(rp):
    if rp.get("kind") == "history":
        files = [tuple(f) for f in rp["files"]]
        st = rp.get("settings") or {}
        h = run_worker([list(f) for f in files], **st)
        k = rp.get("index", len(files) - 1)
        alone = run_worker([list(files[k])], **st)
        if h["files"][k].get("process_state_changed"):
            print("process state changed by", files[k][0], ":", h["files"][k]["process_state_changed"])
            return 1
        print("alone     :", alone["files"][0]); print("in history:", h["files"][k])
        return 0 if alone["files"][0] == h["files"][k] else 1
    if rp.get("kind") == "cli-run":
        import shutil, tempfile
        from impl import run_cli
        d = tempfile.mkdtemp(prefix="verif_c06r_")
        try:
            for path, src in rp["files"]:
                os.makedirs(os.path.join(d, os.path.dirname(path)), exist_ok=True)
                open(os.path.join(d, path), "w").write(src)
            out = run_cli(["-f", "json"] + [p for p, _ in rp["files"]], d)
            doc = json.loads([l for l in out["stdout"].split("\n") if l.startswith("{")][-1])
            bad = 0
            for (path, src), f in zip(rp["files"], doc["files"]):
                nm = os.path.basename(path)
                nm = nm.split("_", 1)[1] if nm.startswith("copy") else nm
                ref = run_worker([[nm, src]])["files"][0]
                got = [[e["level"], e["name"], e["highlights"][0]["lineno"], e["highlights"][0]["column"]] for e in f["errors"]]
                if ref.get("outcome") == "ok" and got != ref["diags"]:
                    print(path, "in the run:", got); print(path, "alone     :", ref["diags"]); bad += 1
            return 1 if bad else 0
        finally:
            shutil.rmtree(d, ignore_errors=True)
    if rp.get("kind") == "listing":
        a = run_worker([rp["file"]]); b = run_worker([rp["file"]], rp["seed"])
        print("default listing :", a["files"][0]); print("permuted listing:", b["files"][0])
        return 0 if a["files"][0] == b["files"][0] else 1
    print("replay names a broken obligation/correspondence:", rp.get("broken"))
    return 1
