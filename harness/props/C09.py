"""C09 — token and diagnostic positions are true source positions."""
import lexcorr as L
from props import lexcommon

LEVEL_NOTE = [
    "A1 str indexing / universal newlines of open(); A2 `re` semantics of the four numeric patterns (matchers are hand-specialised; pattern texts are re-generated and compared)",
    "theorems C09.token_positions / tokens_ordered / diag_positions / column_one_iff_line_start are about Model/Lexer.lean; the tie to lexer.py is the `lex` correspondence (exhaustive short strings + lexeme sequences) and the regenerated dictionaries",
]
PARTIAL = [
    "theorem C09.diag_positions: the first highlight (the printed position) of EVERY lexical diagnostic is the visual position of a character of the file, for every source text; that it is the *offending* character of each code (the escaped character, the first bad digit, the suffix, ...) is fixed by the model's definitions, tied to lexer.py by the `lex` correspondence and, for escapes, checked by the independent oracle (escape-diagnostic-position); positions of diagnostics produced by rules are token positions (token_positions) as far as the rules are ported",
]


def proj(r):
    if r.get("exc"):
        return {"exc": r["exc"]}
    return {"exc": None, "tokens": [[t[0], t[1], t[2], None] for t in r["tokens"]],
            "diags": [[d[0], "", d[2], [[h[0], h[1], None, None] for h in d[3]]] for d in r["diags"]]}


PRINTED = ["int\tg_a = 0189;\n", "x = 0b12013;\n", "char\tg_c = 'ab;\nint y;\n", "char\t*g_s = \"ab\\\ncd", "\ts = \"abc;\n", "a = '\\q';\n",
           "\t\tk = 08 + 0b2 + 1e+ + 1.2.3 + 'xy' + 10uu;\n", "/* never closed\n\tline", "\t@ $ `\n", "x = \"\\x\" + '\\777';\n"]


def printed_positions(res, rng, big):
    """the position PRINTED for a lexical diagnostic (humanized and JSON formats) is the position of
    its first highlight, i.e. the one the `lex` correspondence compares with the model"""
    import re, json
    from norminette.file import File
    from norminette.lexer import Lexer
    from norminette.errors import HumanizedErrorsFormatter, JSONErrorsFormatter
    srcs = PRINTED + [s for s in L.sampled(rng, 4000 if big else 600, 8)]
    n = 0
    for src in srcs:
        f = File("p.c", src)
        try:
            list(Lexer(f))
        except Exception:
            continue
        errs = list(f.errors)
        if not errs:
            continue
        n += 1
        res.count("printed", 1)
        if any(len(e.highlights) > 1 for e in errs):
            res.nontriv(("printed", src))
        want = [(e.name, e.highlights[0].lineno, e.highlights[0].column) for e in errs]
        text = str(HumanizedErrorsFormatter([f], use_colors=False))
        got = [(m.group(1), int(m.group(2)), int(m.group(3))) for m in re.finditer(r"^(?:Error|Notice): (\S+)\s+\(line:\s*(\d+), col:\s*(\d+)\)", text, re.M)]
        js = json.loads(str(JSONErrorsFormatter([f])))
        gotj = [(e["name"], e["highlights"][0]["lineno"], e["highlights"][0]["column"]) for e in js["files"][0]["errors"]]
        if got != want or gotj != want:
            res.report("printed-position", f"{src!r}: printed {got} / json {gotj}, first highlights {want}",
                       {"kind": "printed", "src": src})
    return n


MOVERS = ["/*\n** " + "x" * 90 + "\n*/ int\ta ;\n", "int\tg_a; /* " + "y" * 80 + " */ \n", "/* " + "z" * 90 + " */\n"]


def tokens_not_moved(res, rng, big):
    """a rule may only READ token positions: a diagnostic attached later to a token that some rule
    moved would be printed at a position that is not the token's (observed through the whole pipeline)"""
    import families
    from trace import run_traced
    files = [("mv%d.c" % i, s) for i, s in enumerate(MOVERS)]
    progs = families.programs(rng, 12 if big else 3, comments=True)
    files += [(p.name, t) for p, op, site, t, line in families.violating(rng, progs, per_prog=3)]
    files += families.repo_samples() if big else families.repo_samples()[::6]
    for name, src in files:
        tr = run_traced(name, src)
        res.count("moved", 1)
        for rule, old, new in tr.get("moved", []):
            res.report(f"diag:position@token-moved-by-{rule}", f"{name}: {rule} moved a token from {tuple(old)} to {tuple(new)}",
                       {"kind": "moved", "name": name, "src": src})


STORED = ["/* caf\u00e9 cr\u00e8me \u00e0 la fa\u00e7on */ int  g_x;\n", "\ts = \"\u00e9t\u00e9 \u00e0 No\u00ebl\" ;\n", "// \u6f22\u5b57\n\tx = 08;\n",
          "int\tg_a;\t/* \u20ac */\t@\n", "char\t*g_s = \"\u00fc\u00f1\" \"\\q\";\n", "\tc = '\u00e9' + 0b2;  /* \u00e9\u00e9 */ x = 1.2.3;\n"]


def stored_files(res, rng, big):
    """positions do not depend on how the text reached the lexer: the file stored on disk (UTF-8) and read by the
    real command line reports every diagnostic where the in-process analysis of the same text reports it — with
    characters outside ASCII (one column each) in front of the tokens"""
    import diskcheck
    srcs = list(STORED)
    for _ in range(40 if big else 8):
        ch = rng.choice(diskcheck.NON_ASCII)
        pre = rng.choice(["/* %s */ ", "\"%s\" ", "'%s' ", "/* %s\t%s */\t"]).replace("%s", ch * rng.randint(1, 4))
        srcs.append(rng.choice(["", "\t", "int\tg_v;  "]) + pre + rng.choice(["x  = 08;", "@ y;", "z = 'ab;", "w = 1e+ ;", "\t$", "v = \"\\q\" ;"]) + "\n")
    for src in srcs:
        diskcheck.disk_vs_text(res, "p.c", src, stream="stored")


def run(res, tier, br, model_ok=True, search=False):
    import random
    dis = lexcommon.run_lex(res, tier, want=("C09",), model_ok=model_ok, proj=proj)
    lexcommon.handle_disagreements(res, dis, ("C09",), proj, "token types and positions")
    printed_positions(res, random.Random(res.seed + 5), tier == "thorough" or search)
    tokens_not_moved(res, random.Random(res.seed + 6), tier == "thorough" or search)
    stored_files(res, random.Random(res.seed + 7), tier == "thorough" or search)


def reproduce(res, k):
    if k.get("input") is None:
        return
    from trace import run_traced
    tr = run_traced("mv.c", k["input"])
    for rule, old, new in tr.get("moved", []):
        res.report(f"diag:position@token-moved-by-{rule}", "recorded input of a listed finding", {"kind": "moved", "name": "mv.c", "src": k["input"]})


def replay(rp):
    from impl import lex_impl
    import oracle_lex as O
    src = rp.get("src")
    if rp.get("kind") == "moved":
        from trace import run_traced
        tr = run_traced(rp["name"], src)
        print("source:", repr(src[:200])); print("token positions overwritten by rules:", tr.get("moved"))
        return 1 if tr.get("moved") else 0
    if rp.get("kind") == "disk":
        import diskcheck
        return diskcheck.replay(rp)
    if rp.get("kind") == "printed":
        import core
        global PRINTED
        PRINTED = [src]
        r = core.Result("C09", "replay", 0)
        import random
        printed_positions(r, random.Random(0), False)
        bad = [v for v in r.violations if v[0] == "printed-position" and v[2].get("src") == src]
        print("source:", repr(src)); print("problems:", [v[1][:300] for v in bad])
        return 1 if bad else 0
    if src is None:
        print("replay names a broken obligation/correspondence, no input:", rp.get("broken"))
        return 1
    i = lex_impl(src)
    print("source  :", repr(src))
    print("observed:", i if i.get("exc") else i["tokens"])
    probs = [] if i.get("exc") else O.check_stream(src, i["tokens"], i["diags"])
    print("expected: every token at the visual position of its first character; problems:", probs)
    return 1 if (probs or i.get("exc")) else 0
