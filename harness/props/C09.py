"""C09 — token and diagnostic positions are true source positions."""
import lexcorr as L
from props import lexcommon

LEVEL_NOTE = [
    "A1 str indexing / universal newlines of open(); A2 `re` semantics of the four numeric patterns (matchers are hand-specialised; pattern texts are re-generated and compared)",
    "theorem C09.token_positions is about Model/Lexer.lean; the tie to lexer.py is the `lex` correspondence (exhaustive short strings + lexeme sequences) and the regenerated dictionaries",
]
PARTIAL = [
    "diagnostic highlight positions (C09_diag_positions of DESIGN §4.9) are not yet a theorem: they are compared with the model (correspondence) and BAD_LEXEME positions are proved in C10.bad_reported",
]


def proj(r):
    if r.get("exc"):
        return {"exc": r["exc"]}
    return {"exc": None, "tokens": [[t[0], t[1], t[2], None] for t in r["tokens"]],
            "diags": [[d[0], "", d[2], [[h[0], h[1], None, None] for h in d[3]]] for d in r["diags"]]}


def run(res, tier, br, model_ok=True, search=False):
    dis = lexcommon.run_lex(res, tier, want=("C09",), model_ok=model_ok, proj=proj)
    lexcommon.handle_disagreements(res, dis, ("C09",), proj, "token types and positions")


def replay(rp):
    from impl import lex_impl
    import oracle_lex as O
    src = rp.get("src")
    if src is None:
        print("replay names a broken obligation/correspondence, no input:", rp.get("broken"))
        return 1
    i = lex_impl(src)
    print("source  :", repr(src))
    print("observed:", i if i.get("exc") else i["tokens"])
    probs = [] if i.get("exc") else O.check_stream(src, i["tokens"], i["diags"])
    print("expected: every token at the visual position of its first character; problems:", probs)
    return 1 if (probs or i.get("exc")) else 0
