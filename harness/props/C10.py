"""C10 — tokenization is lossless."""
import lexcorr as L
from props import lexcommon

LEVEL_NOTE = [
    "A1 str indexing / universal newlines; A2 `re` semantics of the numeric patterns",
    "theorems C10.content / roundtrip (full strength): the text of every token is a reading (Spec/Content.lean: characters as themselves, trigraphs/digraphs as their standard character, line splices as nothing, tabs in block comments expanded) of exactly its slice of the source, and the whole input reads as the concatenation of the item texts — nothing dropped, duplicated or reordered",
    "theorems C10.tiling / progress / bad_reported / all_consumed are about Model/Lexer.lean; tie = `lex` correspondence on token kinds, values and BAD_LEXEME diagnostics + regenerated dictionaries (C10.dict_injective re-checked on them)",
]
PARTIAL = [
]


def proj(r):
    if r.get("exc"):
        return {"exc": r["exc"]}
    return {"exc": None, "tokens": [[t[0], 0, 0, t[3]] for t in r["tokens"]],
            "diags": [[d[0], d[1], d[2], []] for d in r["diags"] if d[0] == "BAD_LEXEME"]}


def run(res, tier, br, model_ok=True, search=False):
    dis = lexcommon.run_lex(res, tier, want=("C10",), model_ok=model_ok, proj=proj)
    lexcommon.handle_disagreements(res, dis, ("C10",), proj, "token kinds, values and bad lexemes")


def replay(rp):
    from impl import lex_impl
    import oracle_lex as O
    src = rp.get("src")
    if src is None:
        print("replay names a broken obligation/correspondence, no input:", rp.get("broken"))
        return 1
    i = lex_impl(src)
    print("source  :", repr(src))
    print("observed:", i if i.get("exc") else [(t[0], t[3]) for t in i["tokens"]])
    probs = [] if i.get("exc") else O.check_stream(src, i["tokens"], i["diags"])
    print("expected: token texts tile the normalised source; problems:", probs)
    return 1 if (probs or i.get("exc")) else 0
