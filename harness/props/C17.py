"""C17 — comment text and string contents are opaque."""
import random

import families
import meta

LEVEL_NOTE = [
    "theorem C17.swap_token (token level): two string literals with the same prefix and opaque bodies of the same length go from the same lexer state to the same state through the whole sub-lexer chain; the STRING tokens differ only in their text, no diagnostic",
    "theorems C17.pop_opaque / string_body_swap (lexer half): inside a literal every character other than the delimiter, backslash, newline, tab and the digraph/trigraph starters `? < % :` is consumed as itself, one column, no diagnostic; two bodies of the same length leave the lexer in the same state with the same diagnostics. Tie: `lex` correspondence (shared with C09/C10) + the swap oracle below on the real pipeline",
]
PARTIAL = [
    "C17_engine_partial: that no rule looks inside COMMENT / MULT_COMMENT / STRING / CHAR_CONST values (beyond their length) is not proved (unported rules); the swap oracle runs the whole pipeline on both texts",
    "characters `? < % :` inside the replacement may spell a digraph/trigraph, which the lexer translates (value shorter, positions unchanged): covered by the oracle, outside string_body_swap",
]


def classify(what, d0, d1):
    """signature of a difference. A comment whose text contains a digraph/trigraph has a token text
    shorter than its displayed width; CheckCommentLineLen measures the token text, so the SAME
    displayed width can be reported or not (known finding): recognised when the only differences
    are LINE_TOO_LONG diagnostics located at the comment's own token."""
    import meta as M
    if what["what"] in ("comment", "block") and any(sp in what["old"] or sp in what["new"] for sp in M.ALT_SPELLINGS + ["??'"]):
        diff = [x for x in d0 if x not in d1] + [x for x in d1 if x not in d0]
        if diff and all(x[1] == "LINE_TOO_LONG" and x[2] == what["line"] for x in diff):
            return "swap:comment-width@alternative-spelling"
    return f"swap:{what['what']}"


def run(res, tier, br, model_ok=True, search=False):
    rng = random.Random(res.seed + 97)
    big = tier == "thorough" or search
    progs = families.programs(rng, 60 if big else 12, comments=True)
    viol = families.violating(rng, progs[: (30 if big else 6)], per_prog=2)
    bases = [(p.name, p.text, 11) for p in progs] + [(p.name, t, 11) for p, op, site, t, line in viol]
    extra = [
        ("cm.c", "int\tmain(void)\n{\n\t// inside function\n\treturn (0); /* end of line */\n}\n/* file level */\n#define MSG \"hello world\"\n#define CH 'x'\n", 0),
        ("lit.c", "char\t*g_s = \"a string, with; stuff\";\nint\tf(char *s)\n{\n\tif (s[0] == 'a' && g_s[1] != 'b')\n\t\treturn (ft_strlen(\"xyz abc\"));\n\treturn (0);\n}\n", 0),
    ]
    # diagnostics located to the RIGHT of a literal / comment on the same line (their columns depend on how
    # the lexer counted the literal's raw characters)
    extra.append(("right.c", "int\tf(char *s, int b)\n{\n\ts = \"hello world text\" +b;\n\tf(\"another literal\", b) ;b = 1;\n"
                  "\tb = 'c' +b;\n\treturn (0); /* trailing comment */ b++;\n}\n#define MSG \"text of a macro\" + 1\n/* block */ int g_x ;\n", 0))
    # literals in every syntactic position (array dimension, sizeof, case label, initialiser, argument,
    # condition, directive), comments wider than 80 columns on their own line (the only comments a length rule looks at)
    extra.append(("ctx.c", "#if 'a' == 97\n# define A 'b'\n#endif\nint\t\tg_tab['z' + 1];\nchar\tg_buf[sizeof \"abcdef\"];\nstatic char\tg_s[] = \"init text\";\n"
                  "enum e_x\n{\n\tA = 'a',\n\tB = sizeof(\"bb\")\n};\nint\t\tf(int c)\n{\n\tint\t\tloc['m' + 2];\n\tchar\ttmp[sizeof \"xyz\" + 1];\n\n"
                  "\tswitch (c)\n\t{\n\t\tcase 'q':\n\t\t\treturn ('r');\n\t}\n\tc = 'ab' + 'RIFF' + 'x y';\n\twhile (c != 'w' && f('v') > \"str\"[0])\n\t\tc = (c == 'k') ? 'y' : 'n';\n\treturn (loc[0] + tmp[0]);\n}\n", 0))
    extra.append(("long.c", "// a comment line made of several words that runs well beyond the eighty columns allowed\n"
                  "/* a block comment on one line made of several words, also wider than eighty columns ok */\n"
                  "int\tf(void)\n{\n\t// inside a function: a comment line of several words, wider than the eighty columns\n"
                  "\t/* inside a function, a one-line block comment of several words beyond eighty columns */\n\treturn (0);\n}\n", 0))
    # comments and literals of EQUAL width at different places: file level, end of a line, inside a function
    extra.append(("twin.c", "// {x;} = 0;..\nint\tg_a;\t// top level..\n\nint\tf(char *s)\n{\n\twhile (*s)\t// count it!..\n\t\ts++;\n\t// in a body..\n\tputs(\"0123456789..\");\n"
                  "\treturn (s[0] == 'q');\n}\n// after it....\n/* blk cmt... */\n", 0))
    bases += extra
    bases += [(n, s, 0) for n, s in (families.repo_samples() if big else families.repo_samples()[::5])]
    for name, src, hl in bases:
        o0, d0, _ = meta.diags(name, src)
        if o0 not in ("ok", "fatal"):
            continue
        has_hdr = src.startswith("/* ****")
        for _ in range(10 if big else (30 if name == 'twin.c' else 12 if name in ('right.c', 'ctx.c', 'long.c') else 4)):
            sw = meta.swap_one(src, rng, header_lines=(11 if has_hdr else 0))
            if not sw:
                break
            new, what = sw
            o1, d1, _ = meta.diags(name, new)
            res.count("swap", 1, **{what["what"]: 1})
            res.nontriv(("sw", new))
            if (o0, d0) != (o1, d1):
                gone = [x for x in d0 if x not in d1][:3]
                came = [x for x in d1 if x not in d0][:3]
                res.report(classify(what, d0, d1), f"{name} line {what['line']}: replacing {what['old']!r} by {what['new']!r} in a {what['what']}: "
                           f"outcome {o0}->{o1}, diagnostics gone {gone}, new {came}",
                           {"kind": "swap", "name": name, "original": src, "swapped": new, "what": what})
    # boundary-shape sweep on the hand-written files and a few generated ones
    for name, src, hl in extra + bases[: (6 if big else 2)]:
        o0, d0, _ = meta.diags(name, src)
        if o0 not in ("ok", "fatal"):
            continue
        hl_ = 11 if src.startswith("/* ****") else 0
        for new, what in meta.shaped_swaps(src, rng, header_lines=hl_) + (meta.class_swaps(src, rng, header_lines=hl_) if (name, src, hl) in extra or big else []):
            o1, d1, _ = meta.diags(name, new)
            res.count("swap.shapes", 1)
            res.nontriv(("sh", new))
            if (o0, d0) != (o1, d1):
                gone = [x for x in d0 if x not in d1][:3]
                came = [x for x in d1 if x not in d0][:3]
                res.report(classify(what, d0, d1), f"{name} line {what['line']}: replacing {what['old']!r} by {what['new']!r} in a {what['what']}: "
                           f"outcome {o0}->{o1}, diagnostics gone {gone}, new {came}",
                           {"kind": "swap", "name": name, "original": src, "swapped": new, "what": what})
    res.sample({"swap": {"file": bases[0][0]}})


def reproduce(res, k):
    if not k.get("swapped"):
        return
    a = meta.diags(k.get("input_name") or "a.c", k["input"]); b = meta.diags(k.get("input_name") or "a.c", k["swapped"])
    if (a[0], a[1]) != (b[0], b[1]):
        res.report(k["signature"], "recorded pair of a listed finding", {"kind": "swap", "name": "a.c", "original": k["input"], "swapped": k["swapped"], "what": {}})


def replay(rp):
    if rp.get("kind") != "swap":
        print("replay names a broken obligation/correspondence:", rp.get("broken"))
        return 1
    a = meta.diags(rp["name"], rp["original"]); b = meta.diags(rp["name"], rp["swapped"])
    print("what:", rp["what"]); print("original:", a[0], a[1]); print("swapped :", b[0], b[1])
    return 0 if (a[0], a[1]) == (b[0], b[1]) else 1
