"""C11 — C literals are classified as C defines them."""
import itertools
import random

import lexcorr as L
from props import lexcommon

LEVEL_NOTE = [
    "Spec/Literals.lean is written from C11 §6.4.4.1 plus the extensions the property names (0b, u/l/ll/z/wb/i64); theorem C11.int_valid: every well-formed integer constant (any base, digit string of any length, any suffix of the table) becomes ONE CONSTANT token with its exact text, no diagnostic, at any position, for any continuation allowed by boundaryOK",
    "tie: `lex` correspondence on the literal families below (all constants with digit strings up to a bound, every escape, every malformed family) + regenerated suffix tables (C11.suffix_table_complete) and pattern texts (C05.patterns_unchanged)",
    "A2: `re` semantics of the four numeric patterns (hand-specialised matchers in the model)",
]
PARTIAL = [
    "proved valid: C11.int_valid, float_valid, hexfloat_valid, char_valid / char_escape_valid / char_octal_valid / char_hex_valid, string_valid, string_units_valid (bodies of any length mixing plain characters with simple, octal and hexadecimal escapes)",
    "proved reported (every malformed family the property names, unbounded members, exact list of added diagnostics): int_token / int_unknown_suffix_reported / int_bad_octal_digit_reported / int_bad_binary_digit_reported (Proofs/IntReport.lean), bad_exponent_reported / bad_hex_exponent_reported / multiple_dots_reported / multiple_x_reported / bad_float_suffix_reported (Proofs/BadFloats.lean), empty_char_reported / char_eof_reported / char_eol_reported / string_eof_reported (Proofs/BadLiterals.lean)",
    "not proved: `\\?` inside a string: decided per input by the correspondence and by the independent recogniser below",
]

ISUF = ["", "u", "U", "l", "L", "ll", "LL", "z", "Z", "wb", "WB", "i64", "I64", "ul", "uL", "Ul", "UL", "lu", "lU", "Lu", "LU",
        "ull", "uLL", "Ull", "ULL", "llu", "llU", "LLu", "LLU", "uz", "uZ", "Uz", "UZ", "zu", "zU", "Zu", "ZU",
        "uwb", "uWB", "Uwb", "UWB", "wbu", "wbU", "WBu", "WBU", "ui64", "uI64", "Ui64", "UI64", "i64u", "i64U", "I64u", "I64U"]
FSUF = ["", "f", "F", "l", "L", "d", "D"]
SIMPLE_ESC = ["\\a", "\\b", "\\e", "\\f", "\\n", "\\r", "\\t", "\\v", "\\\\", "\\'", "\\\"", "\\?"]
PREFIXES = ["", "L", "u", "U", "u8"]
RESTS = [";", " + 1;", ");", "\n", "", ",x", "]", " "]


def digit_strings(alphabet, maxlen, rng, cap):
    out = []
    for n in range(1, maxlen + 1):
        combos = itertools.product(alphabet, repeat=n)
        if len(alphabet) ** n <= cap:
            out += ["".join(c) for c in combos]
        else:
            out += ["".join(rng.choice(alphabet) for _ in range(n)) for _ in range(cap)]
    return out


def valid_ints(rng, maxlen, per):
    out = []
    for ds in digit_strings("0123456789", maxlen, rng, per):
        if ds[0] != "0":
            out.append(ds)
    out.append("0")
    out += ["0" + ds for ds in digit_strings("01234567", maxlen, rng, per)]
    for x in "xX":
        out += ["0" + x + ds for ds in digit_strings("0123456789abcdefABCDEF", maxlen, rng, per)]
    for b in "bB":
        out += ["0" + b + ds for ds in digit_strings("01", maxlen, rng, per)]
    # long ones
    out += ["1" + "".join(rng.choice("0123456789") for _ in range(rng.randint(10, 60))) for _ in range(5)]
    out += ["0x" + "".join(rng.choice("0123456789abcdefABCDEF") for _ in range(rng.randint(10, 60))) for _ in range(5)]
    return out


def valid_floats(rng, maxlen, per):
    D = digit_strings("0123456789", min(maxlen, 3), rng, per)
    H = digit_strings("0123456789abcdefABCDEF", min(maxlen, 2), rng, per)
    exps = ["e1", "E12", "e+3", "E-4", "e+05"]
    bexps = ["p1", "P12", "p+3", "P-4"]
    out = []
    for d in rng.sample(D, min(len(D), per)):
        out += [d + e for e in exps]                                      # D+ Exp
        out += [d + ".", d + "." + rng.choice(D), "." + d]                # fractional forms
        out += [d + "." + e for e in exps[:2]] + ["." + d + rng.choice(exps), d + "." + rng.choice(D) + rng.choice(exps)]
    for h in rng.sample(H, min(len(H), per)):
        for x in ("0x", "0X"):
            out += [x + h + rng.choice(bexps), x + h + "." + rng.choice(bexps), x + h + "." + rng.choice(H) + rng.choice(bexps),
                    x + "." + h + rng.choice(bexps)]
    return out


def valid_chars():
    out = []
    bodies = ["a", "Z", "0", " ", "#", "\"", "?"] + SIMPLE_ESC + ["\\0", "\\7", "\\12", "\\177", "\\x0", "\\xA", "\\x41", "\\xfF", "\\x041", "\\x0041", "\\x00000041"]
    for p in PREFIXES:
        for b in bodies:
            out.append(p + "'" + b + "'")
    return out


def valid_strings(rng):
    pieces = ["a", "b c", ";{", "//", "/*", "'", "?", "%d", "\\n", "\\t", "\\\\", "\\\"", "\\x41", "\\101", "\\0", "é"] + SIMPLE_ESC
    out = [p + '""' for p in PREFIXES]
    for p in PREFIXES:
        for _ in range(12):
            body = "".join(rng.choice(pieces) for _ in range(rng.randint(1, 6)))
            if "??" in body or any(d in body for d in ("<:", ":>", "<%", "%>", "%:")):
                continue        # would be a trigraph/digraph: the token text is then normalised (C12's subject)
            out.append(p + '"' + body + '"')
    return out


def near_miss_suffixes():
    import itertools
    from norminette.lexer.lexer import float_suffixes, integer_suffixes
    out = []
    for table, body, code in ((float_suffixes, "1.5", "BAD_FLOAT_SUFFIX"), (integer_suffixes, "12", "INVALID_SUFFIX")):
        seen = set()
        for suf in table:
            if len(suf) < 2:
                continue
            for pat in itertools.product((0, 1), repeat=len(suf)):
                v = "".join(ch.upper() if up else ch.lower() for ch, up in zip(suf, pat))
                if v not in table and v not in seen:
                    seen.add(v)
                    out.append((body + v, code))
    return out


# malformed families of DESIGN §4.11: (example, expected code)
def malformed(rng):
    fam = []
    for ds in ["08", "09", "0128", "089", "07778"]:
        fam.append((ds, "INVALID_OCT_INT"))
    for ds in ["0b2", "0b102", "0B19", "0b1012"]:
        fam.append((ds, "INVALID_BIN_INT"))
    for s in ["10uu", "1lul", "7q", "0x1Fg", "12abc", "0b1a", "1_000", "5lL", "3uU", "0xg1"]:
        fam.append((s, "INVALID_SUFFIX"))
    for s in ["0x1e+3", "0xE-1", "0x1E+a"]:
        fam.append((s, "MAXIMAL_MUNCH"))
    for s in ["0x1p", "0x1.8p+", "0X.8P-", "0x1pp3", "0x1.pf"]:
        fam.append((s, "BAD_EXPONENT"))
    for s in ["1.e-", "1.5e+", ".5e", "1.5E", "1.5ee3", "10.e+"]:
        fam.append((s, "BAD_EXPONENT"))
    for s in ["1e", "1e+", "1E-", "12e+;", "1ee5"]:
        fam.append((s.rstrip(";"), "BAD_EXPONENT"))
    for s in ["1.2.3", "1..2", ".1.2", "1.2.3.4"]:
        fam.append((s, "MULTIPLE_DOTS"))
    for s in ["1.0q", "1.5ff", "1.f1", "2.5lf", "1e5ff"]:
        fam.append((s, "BAD_FLOAT_SUFFIX"))
    for s in ["0xx1.8p1", "0xX1p3", "0xxx.8p1"]:
        fam.append((s, "MULTIPLE_X"))
    # near misses of the suffix tables: the same letters in a case pattern the table does not list
    fam += near_miss_suffixes()
    fam += [("''", "EMPTY_CHAR"), ("L''", "EMPTY_CHAR"), ("'ab'", "CHAR_AS_STRING"), ("'abc'", "CHAR_AS_STRING"),
            ("'a\n", "UNEXPECTED_EOL_CHR"), ("'\n", "UNEXPECTED_EOL_CHR"), ("'a", "UNEXPECTED_EOF_CHR"), ("'", "UNEXPECTED_EOF_CHR"),
            ("\"abc", "UNEXPECTED_EOF_STR"), ("\"", "UNEXPECTED_EOF_STR"), ("\"a\\\n", "UNEXPECTED_EOF_STR"),
            ("/* x", "UNEXPECTED_EOF_MC"), ("/*", "UNEXPECTED_EOF_MC"), ("'\\q'", "UNKNOWN_ESCAPE"), ("\"\\q\"", "UNKNOWN_ESCAPE"),
            ("\"\\x\"", "NO_HEX_DIGITS"), ("'\\xg'", "NO_HEX_DIGITS")]
    return fam


def oracle_valid(res, const, rest, kind, r):
    """the statement: one token spanning the whole constant, no lexical diagnostic"""
    src = const + rest
    rp = {"kind": "literal", "src": src, "const": const}
    if r.get("exc"):
        res.report(r["exc"], f"tokenizer raises on {src!r}", rp)
        return
    toks = r["tokens"]
    if not toks or toks[0][0] != kind or toks[0][3] != const:
        res.report(f"literal:{kind}:not-one-token", f"valid constant {const!r} (followed by {rest!r}) lexed as {[(t[0], t[3]) for t in toks[:4]]}", rp)
        return
    # diagnostics located on the constant itself
    mine = [d for d in r["diags"] if d[3] and d[3][0][0] == 1 and d[3][0][1] <= len(const)]
    if mine:
        res.report(f"literal:{kind}:spurious-{mine[0][0]}", f"valid constant {const!r} gets {[d[0] for d in mine]}", rp)


def oracle_malformed(res, const, code, r):
    src = const
    rp = {"kind": "literal", "src": src, "const": const, "expected": code}
    if r.get("exc"):
        res.report(r["exc"], f"tokenizer raises on {src!r}", rp)
        return
    if code not in [d[0] for d in r["diags"]]:
        res.report(f"literal:missing-{code}", f"malformed {const!r}: expected {code}, got {[d[0] for d in r['diags']]}", rp)


def run(res, tier, br, model_ok=True, search=False):
    rng = random.Random(res.seed + 71)
    big = tier == "thorough" or search
    maxlen, per = (4, 400) if big else (3, 60)
    cases = []   # (src, what, payload)
    ints = valid_ints(rng, maxlen, per)
    for c in ints:
        sufs = ISUF if (big or rng.random() < 0.08) else rng.sample(ISUF, 3)
        for sfx in sufs:
            cases.append((c + sfx, rng.choice(RESTS), "CONSTANT"))
    for c in valid_floats(rng, maxlen, 40 if big else 10):
        for sfx in (FSUF if big else rng.sample(FSUF, 3)):
            cases.append((c + sfx, rng.choice(RESTS), "CONSTANT"))
    for c in valid_chars():
        cases.append((c, rng.choice(RESTS), "CHAR_CONST"))
    for c in valid_strings(rng):
        cases.append((c, rng.choice(RESTS), "STRING"))
    mal = malformed(rng)
    srcs = [c + r for c, r, k in cases] + [m for m, code in mal]
    impl = L.impl_many(srcs)
    model = L.model_many(srcs) if model_ok else [None] * len(srcs)
    dis = []
    for k, (c, rest, kind) in enumerate(cases):
        res.count("literal.valid", 1)
        res.nontriv(("lit", c))
        oracle_valid(res, c, rest, kind, impl[k])
    for j, (m, code) in enumerate(mal):
        res.count("literal.malformed", 1)
        res.nontriv(("mal", m))
        oracle_malformed(res, m, code, impl[len(cases) + j])
    for s, i, m in zip(srcs, impl, model):
        if m is not None:
            res.traces_validated += 1
            d = L.diff(i, m)
            if d:
                dis.append((s, d))
    res.sample({"valid": [c for c, r, k in cases[:3]] + [cases[-1][0]], "malformed": mal[:3]})
    res.streams["literal.valid"]["by_kind"] = {k: sum(1 for c in cases if c[2] == k) for k in ("CONSTANT", "CHAR_CONST", "STRING")}
    lexcommon.handle_disagreements(res, dis, ("C11",), None, "literal families")
    # the general lexer stream as well (tokens and diagnostics in full)
    dis2 = lexcommon.run_lex(res, "quick" if not big else tier, want=(), model_ok=model_ok, proj=None)
    lexcommon.handle_disagreements(res, dis2, ("C11",), None, "tokens and diagnostics")


def replay(rp):
    from impl import lex_impl
    import core
    if rp.get("kind") != "literal" and rp.get("kind") != "lex":
        print("replay names a broken obligation/correspondence:", rp.get("broken"))
        return 1
    r = lex_impl(rp["src"])
    print("source  :", repr(rp["src"]))
    print("observed:", r.get("exc") or ([(t[0], t[3]) for t in r["tokens"]], [d[0] for d in r["diags"]]))
    res = core.Result("C11", "replay", 0)
    if rp.get("expected"):
        oracle_malformed(res, rp["const"], rp["expected"], r)
    elif rp.get("const"):
        kind = "STRING" if '"' in rp["const"][:3] else ("CHAR_CONST" if "'" in rp["const"][:3] else "CONSTANT")
        oracle_valid(res, rp["const"], rp["src"][len(rp["const"]):], kind, r)
    for v in res.violations:
        print("VIOLATED:", v[0], v[1])
    return 1 if res.violations else 0
