"""C04 — exit status and per-file verdict agree with the diagnostics."""
import os
import json
import shutil
import tempfile
import itertools
import re

import families
from gen import header
from core import Driver, cps, uncps
from props.C08 import diag_req, parse_human

LEVEL_NOTE = [
    "A6 argparse; A4 os.path.basename/abspath; the per-file outcomes given to the model are observed by running the real lexer+engine on each file (the model covers the loop, the formatter call and the exit status of main)",
    "theorems are about Model/Cli.lean::cliRun; tie = `cli` correspondence (stdout byte-exact and exit status of the real main() on sequences over {clean, notice-only, erroneous, fatal} of length 0..3/4 exhaustively, longer ones sampled, explicit paths and directory arguments)",
]
PARTIAL = []

CLASSES = ["clean", "notice", "error", "fatal"]


def red(msg):
    return f"\x1b[31m{msg}\x1b[0m"


def sequences(tier, rng):
    maxlen = 4 if tier == "thorough" else 3
    seqs = []
    for n in range(0, maxlen + 1):
        seqs += list(itertools.product(CLASSES, repeat=n))
    for _ in range(60 if tier == "thorough" else 12):
        seqs.append(tuple(rng.choice(CLASSES) for _ in range(rng.randint(5, 9))))
    return seqs


def run(res, tier, br, model_ok=True, search=False):
    import random
    from impl import main_inprocess, pipeline, run_cli, pipeline_fresh
    rng = random.Random(res.seed + 17)
    cls = families.file_classes(rng)
    tmp = tempfile.mkdtemp(prefix="verif_c04_")
    reqs, meta = [], []
    try:
        seqs = sequences(tier, rng)
        for si, seq in enumerate(seqs):
            d = os.path.join(tmp, f"s{si}")
            os.makedirs(d)
            names = []
            texts = []
            for k, c in enumerate(seq):
                nm = f"f{k}_{c}.c"
                text = rng.choice(cls[c])
                # files of one run that mention the same macro: a header whose only fault is that its guard is
                # never defined, right after a file that defines a macro of exactly that name
                if c == "error" and k >= 1 and seq[k - 1] in ("clean", "notice") and si % 2 == 0 and texts[-1].startswith("/* ****"):
                    nm = f"f{k}_{c}.h"
                    g = nm.upper().replace(".", "_")
                    text = header.header42(nm) + f"\n#ifndef {g}\n\nint\tf(void);\n\n#endif\n"
                    hdr_end = texts[-1].index("\n", texts[-1].rindex("*/")) + 1
                    texts[-1] = texts[-1][:hdr_end] + f"\n#define {g} 1\n" + texts[-1][hdr_end:]
                names.append(nm)
                texts.append(text)
            textof = dict(zip(names, texts))
            for nm, text in zip(names, texts):
                with open(os.path.join(d, nm), "w") as f:
                    f.write(text)
            variants = [("paths", list(names), [])]
            if si % 3 == 0:
                variants.append(("paths-nocolor", list(names), ["--no-colors"]))
            if si % 4 == 1:
                variants.append(("paths-json", list(names), ["-f", "json"]))
            if seq and si % 5 == 2:
                variants.append(("dir", ["."], []))
            if seq and si % 3 == 1:
                # the same path mentioned more than once: one verdict per mention
                variants.append(("paths-repeat", list(names) + [rng.choice(names) for _ in range(rng.randint(1, 2))], []))
            if seq and si % 5 == 4:
                # the files found through a directory argument, below folders that are themselves named like sources
                variants.append(("dir-named", ["."], []))
            for vname, argv, opts in variants:
                if vname == "dir-named":
                    # move every file into a folder whose own name ends in .c / .h (two levels for some)
                    for k, nm in enumerate(names):
                        sub = ["gen.c", "api.h", os.path.join("x.h", "y.c")][k % 3]
                        os.makedirs(os.path.join(d, sub), exist_ok=True)
                        os.replace(os.path.join(d, nm), os.path.join(d, sub, nm))
                use_sub = (tier == "thorough" and si % 7 == 0) or (si % 40 == 0)
                out = run_cli(opts + argv, d) if use_sub else main_inprocess(opts + argv, d)
                res.count("cli", 1, subprocess=int(use_sub))
                if len(set(seq)) >= 2:
                    res.nontriv((seq, vname))
                # per-file outcomes observed with the real lexer + engine
                outcomes = []
                vnames = argv if vname.startswith("paths") else names
                for nm in vnames:
                    src = textof[nm]
                    # the reference for a file that shares a macro name with another file of the run is its
                    # analysis in a fresh interpreter (nothing an earlier run may have left behind)
                    r = pipeline_fresh(nm, src) if nm.endswith(".h") else pipeline(nm, src)
                    outcomes.append((nm, r))
                replay = {"kind": "cli", "classes": list(seq), "variant": vname, "opts": opts,
                          "files": {nm: textof[nm] for nm in names}}
                if out.get("exc") or out.get("hang") or out.get("exit") is None or (use_sub and "Traceback" in out.get("stderr", "")):
                    res.report(out.get("exc") or ("hang@main" if out.get("hang") else "crash:main"),
                               f"run over {seq} ({vname}) did not end with an exit status: {out.get('exc')} {out.get('stderr','')[-200:]}", replay)
                    continue
                # ---- oracle: the property itself
                if vname != "paths-json":
                    oracle(res, seq, vname, vnames, outcomes, out, replay)
                else:
                    oracle_json(res, seq, vnames, outcomes, out, replay)
                # ---- correspondence with the model (explicit paths only: order is defined)
                if vname.startswith("paths") and model_ok:
                    files = []
                    for nm, r in outcomes:
                        f = {"path": cps(nm), "basename": cps(nm), "abspath": cps(os.path.join(os.path.realpath(d), nm))}
                        if r["outcome"] == "fatal":
                            f["fatal"] = cps(r["msg"])
                        elif r["outcome"] == "ok":
                            f["fatal"] = None
                            f["diags"] = [diag_req(x) for x in r["raw"]]
                        else:
                            f = None
                        files.append(f)
                    if all(f is not None for f in files):
                        reqs.append({"op": "cli", "files": files, "colors": "--no-colors" not in opts,
                                     "format": "json" if "json" in opts else "humanized"})
                        meta.append((seq, vname, out, replay))
        if model_ok and reqs:
            replies = Driver().batch(reqs)
            nbad, first = 0, None
            for (seq, vname, out, replay), m in zip(meta, replies):
                res.traces_validated += 1
                exp = None
                if "error" not in m:
                    pr = m["printed"]
                    if pr["kind"] == "human":
                        exp = uncps(pr["text"])
                    elif pr["kind"] == "fatal":
                        exp = f"{uncps(pr['path'])}: Error!\n\t{red(uncps(pr['msg']))}\n"
                    elif pr["kind"] == "json":
                        doc = {"files": [{"path": uncps(f[0]), "status": f[1], "errors": [
                            {"name": uncps(e[0]), "text": uncps(e[1]), "level": e[2],
                             "highlights": [{"lineno": h[0], "column": h[1], "length": h[2], "hint": uncps(h[3])} for h in e[3]]}
                            for e in f[2]]} for f in pr["doc"]]}
                        exp = json.dumps(doc, separators=(",", ":")) + "\n"
                if exp is None or exp != out["stdout"] or m.get("exit") != out["exit"]:
                    nbad += 1
                    first = first or (seq, vname, out["stdout"][:200], out["exit"], str(m)[:300])
            if nbad:
                res.broken.append(f"correspondence cli: {nbad} disagreements, e.g. {first}")
        many_files(res, rng, cls, tmp, [256] if tier == "quick" and not search else [255, 256, 257, 512])
        res.sample({"cli": {"classes": list(seqs[min(20, len(seqs) - 1)])}})
    finally:
        shutil.rmtree(tmp, ignore_errors=True)


def oracle(res, seq, vname, names, outcomes, out, replay):
    fatal = [nm for nm, r in outcomes if r["outcome"] == "fatal"]
    bad_outcome = [r["outcome"] for nm, r in outcomes if r["outcome"] not in ("ok", "fatal")]
    if bad_outcome:
        return
    text = out["stdout"]
    if not names:
        if out["exit"] != 0 or text.strip():
            res.report("empty-run", f"empty selection: exit {out['exit']}, output {text[:80]!r}", replay)
        return
    if fatal:
        first = fatal[0] if not vname.startswith("dir") else None
        if out["exit"] == 0:
            res.report("fatal:exit-zero", f"{seq}: a fatally unparsable file but exit status 0", replay)
        named = [nm for nm in fatal if (nm + ": Error!") in text or ("/" + nm + ": Error!") in text]
        if not named:
            res.report("fatal:not-named", f"{seq}: fatal file {fatal} not named with Error! in {text[:200]!r}", replay)
        elif first is not None and first not in named:
            res.report("fatal:wrong-file", f"{seq}: the first fatal file is {first}, output names {named}", replay)
        return
    ph = parse_human(text)
    got = [(f[0], f[1]) for f in ph]
    want = [(nm, r["status"]) for nm, r in outcomes]
    if vname.startswith("dir"):
        got, want = sorted(got), sorted(want)
    if got != want:
        res.report("verdicts", f"{seq} ({vname}): verdict lines {got}, expected one per file {want}", replay)
    for nm, r in outcomes:
        has_err = any(d[2] == "Error" for d in r["diags"])
        if (r["status"] == "OK") == has_err:
            res.report("verdict-vs-diagnostics", f"{nm}: status {r['status']} with Error-level diagnostics={has_err}", replay)
    all_ok = all(r["status"] == "OK" for nm, r in outcomes)
    if (out["exit"] == 0) != all_ok:
        res.report("exit-status", f"{seq} ({vname}): exit {out['exit']} while verdicts are {[r['status'] for _, r in outcomes]}", replay)


def oracle_json(res, seq, names, outcomes, out, replay):
    """`-f json`: the verdict of a file is its "status"; it is "OK" iff none of the file's diagnostics has level Error"""
    if any(r["outcome"] not in ("ok", "fatal") for nm, r in outcomes):
        return
    if any(r["outcome"] == "fatal" for nm, r in outcomes):
        if out["exit"] == 0:
            res.report("fatal:exit-zero", f"{seq} (json): a fatally unparsable file but exit status 0", replay)
        return
    try:
        doc = json.loads(out["stdout"])
        entries = doc["files"]
    except Exception as e:
        res.report("json:invalid", f"{seq}: the JSON report does not parse: {e}", replay)
        return
    if len(entries) != len(names):
        res.report("verdicts", f"{seq} (json): {len(entries)} file entries for {len(names)} files", replay)
        return
    for (nm, r), e in zip(outcomes, entries):
        has_err = any(x.get("level") == "Error" for x in e.get("errors", []))
        ref_err = any(d[2] == "Error" for d in r["diags"])
        if e.get("status") not in ("OK", "Error") or (e.get("status") == "Error") != has_err or has_err != ref_err:
            res.report("verdict-vs-diagnostics", f"{nm} (json): status {e.get('status')!r} while Error-level diagnostics present={has_err}"
                       f" (levels {[x.get('level') for x in e.get('errors', [])]})", replay)
    all_ok = all(e.get("status") == "OK" for e in entries)
    if (out["exit"] == 0) != all_ok:
        res.report("exit-status", f"{seq} (json): exit {out['exit']} while statuses are {[e.get('status') for e in entries]}", replay)


def many_files(res, rng, cls, tmp, counts):
    """"independently of how many files there are": one real process over N erroneous files (plus one clean file)
    must end with a non-zero status; the status is observed after the operating system has truncated it"""
    from impl import run_cli
    for n in counts:
        d = os.path.join(tmp, f"many{n}")
        os.makedirs(d)
        text = rng.choice(cls["error"])
        names = [f"e{k:03d}.c" for k in range(n)] + ["zclean.c"]
        for nm in names[:-1]:
            open(os.path.join(d, nm), "w").write(text)
        open(os.path.join(d, names[-1]), "w").write(rng.choice(cls["clean"]))
        out = run_cli(names, d, timeout=600)
        res.count("cli-many", 1, files=n)
        res.nontriv(("many", n))
        replay = {"kind": "many", "n": n, "error_text": text, "clean_text": open(os.path.join(d, names[-1])).read()}
        if out.get("hang") or out.get("exit") is None or "Traceback" in out.get("stderr", ""):
            res.report("hang@main" if out.get("hang") else "crash:main", f"run over {n} files did not end with an exit status: {out.get('stderr','')[-200:]}", replay)
            continue
        nerr = len(re.findall(r"^\S+: Error!$", out["stdout"], re.M))
        nok = len(re.findall(r"^\S+: OK!$", out["stdout"], re.M))
        if nerr + nok != n + 1:
            res.report("verdicts", f"{n + 1} files: {nerr} Error! and {nok} OK! verdict lines", replay)
        if (out["exit"] == 0) != (nerr == 0):
            res.report("exit-status", f"{n} erroneous files in one run: {nerr} `Error!` verdicts but exit status {out['exit']}", replay)
        shutil.rmtree(d, ignore_errors=True)


def replay_many(rp):
    from impl import run_cli
    d = tempfile.mkdtemp(prefix="verif_c04m_")
    try:
        names = [f"e{k:03d}.c" for k in range(rp["n"])] + ["zclean.c"]
        for nm in names[:-1]:
            open(os.path.join(d, nm), "w").write(rp["error_text"])
        open(os.path.join(d, names[-1]), "w").write(rp["clean_text"])
        out = run_cli(names, d, timeout=600)
        nerr = len(re.findall(r"^\S+: Error!$", out["stdout"], re.M))
        print(f"files   : {rp['n']} copies of an erroneous file + one clean file, explicit paths, one process")
        print("verdicts:", nerr, "Error!")
        print("exit    :", out["exit"])
        return 1 if (out["exit"] == 0) != (nerr == 0) or out["exit"] is None else 0
    finally:
        shutil.rmtree(d, ignore_errors=True)


def replay(rp):
    import core
    from impl import main_inprocess, pipeline
    if rp.get("kind") == "many":
        return replay_many(rp)
    if rp.get("kind") != "cli":
        print("replay names a broken obligation/correspondence:", rp.get("broken"))
        return 1
    res = core.Result("C04", "replay", 0)
    d = tempfile.mkdtemp(prefix="verif_c04r_")
    try:
        names = list(rp["files"])
        for nm, src in rp["files"].items():
            open(os.path.join(d, nm), "w").write(src)
        argv = ["."] if rp["variant"].startswith("dir") else names
        if rp["variant"] == "dir-named":
            for k, nm in enumerate(names):
                sub = ["gen.c", "api.h", os.path.join("x.h", "y.c")][k % 3]
                os.makedirs(os.path.join(d, sub), exist_ok=True)
                os.replace(os.path.join(d, nm), os.path.join(d, sub, nm))
        out = main_inprocess(rp["opts"] + argv, d)
        from impl import pipeline_fresh
        outcomes = [(nm, pipeline_fresh(nm, rp["files"][nm]) if nm.endswith(".h") else pipeline(nm, rp["files"][nm])) for nm in names]
        print("classes :", rp["classes"], rp["variant"])
        print("stdout  :", out["stdout"][:600])
        print("exit    :", out["exit"], out.get("exc"))
        if out.get("exc") or out["exit"] is None:
            return 1
        if rp["variant"] == "paths-json":
            oracle_json(res, tuple(rp["classes"]), names, outcomes, out, rp)
        else:
            oracle(res, tuple(rp["classes"]), rp["variant"], names, outcomes, out, rp)
    finally:
        shutil.rmtree(d, ignore_errors=True)
    for v in res.violations:
        print("VIOLATED:", v[0], v[1][:300])
    return 1 if res.violations else 0
