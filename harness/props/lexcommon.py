"""Streams shared by the lexer-level properties (C05a C09 C10 C11 C12a C17a C18a C19a):
the `lex` correspondence (implementation vs Lean model, same strings) and the raw-scanner
oracle (the property statements evaluated on the implementation alone)."""
import itertools

import lexcorr as L
import oracle_lex as O

_cache = {}


def inputs(tier, seed):
    key = (tier, seed)
    if key in _cache:
        return _cache[key]
    import random
    rng = random.Random(seed * 7919 + 11)
    if tier == "thorough":
        ex = list(L.exhaustive(4))
        samp = L.sampled(rng, 60000, 16)
        ex5 = ["".join(rng.choice(L.ALPHABET) for _ in range(5)) for _ in range(200000)]
        ex = ex + ex5
    else:
        ex = list(L.exhaustive(3))
        ex += ["".join(rng.choice(L.ALPHABET) for _ in range(rng.randint(4, 7))) for _ in range(12000)]
        samp = L.sampled(rng, 5000, 12)
    longs = ["@" * 5000, "'" + "a" * 300, "\\\n" * 300 + "x", "\"" + "\\\n" * 200, "(" * 2000, "??/\n" * 150 + "y",
             "/*" + "\\\n" * 150 + "*/ z", "0x" + "f" * 3000, "a" * 4000, "\t" * 500 + "x"] + L.pathological()
    corpus = load_corpus()
    _cache[key] = (corpus, ex, samp, longs)
    return _cache[key]


def load_corpus():
    import os, json
    from core import VERIF
    p = os.path.join(VERIF, "corpus", "lex.json")
    if os.path.exists(p):
        return [x["src"] for x in json.load(open(p))]
    return []


def run_lex(res, tier, want=("C05", "C09", "C10"), model_ok=True, proj=None):
    """Runs the streams; reports oracle failures into `res`.
    Returns the list of correspondence disagreements (src, description) under projection `proj`."""
    corpus, ex, samp, longs = inputs(tier, res.seed)
    srcs = corpus + ex + samp + longs
    impl = L.impl_many(srcs)
    model = L.model_many(srcs) if model_ok else [None] * len(srcs)
    disagreements = []
    kinds = {}
    for s, i, m in zip(srcs, impl, model):
        res.count("lex", 1)
        if i.get("exc"):
            res.count("lex.exceptions", 0, impl_exc=1)
            if "C05" in want:
                sig = "hang@lexer" if i["exc"] == "hang" else i["exc"]
                res.report(sig, f"the tokenizer does not return on {s[:60]!r}: {i['exc']}",
                           {"kind": "lex", "src": s, "observed": i["exc"], "expected": "tokens and lexical diagnostics"})
        else:
            tk = tuple(sorted({t[0] for t in i["tokens"]}))
            kinds[tk] = kinds.get(tk, 0) + 1
            if len(tk) >= 2 or i["diags"]:
                res.nontriv(s)
            for prop, cls, why in O.check_stream(s, i["tokens"], i["diags"]):
                if prop in want:
                    res.report(f"lex:{prop}:{cls}", why,
                               {"kind": "lex", "src": s, "observed": why, "tokens": i["tokens"][:40]})
        if m is not None:
            d = L.diff(proj(i), proj(m)) if proj else L.diff(i, m)
            res.traces_validated += 1
            if d:
                disagreements.append((s, d))
    for s in (corpus + samp)[:6]:
        res.sample({"lex": s})
    res.streams.setdefault("lex", {})["distinct_token_kind_sets"] = len(kinds)
    res.streams["lex"]["inputs"] = {"corpus": len(corpus), "exhaustive_or_uniform": len(ex), "lexeme_sequences": len(samp), "long": len(longs)}
    return disagreements


def handle_disagreements(res, dis, want, proj, what):
    """A broken correspondence is not by itself a violation: record it as a broken tie,
    minimise one disagreeing input, keep it in the corpus and search its neighbourhood
    with the property's oracle."""
    if not dis:
        return
    from core import LiveDriver
    from impl import lex_impl
    s, d = min(dis, key=lambda x: len(x[0]))
    drv = LiveDriver()
    try:
        def still(x):
            m = L.canon_model(drv.ask(L.lex_request(x)))
            i = lex_impl(x, timeout=5.0)
            return bool(L.diff(proj(i), proj(m)) if proj else L.diff(i, m))
        s2 = L.shrink(s, still, budget=300)
    finally:
        drv.close()
    res.broken.append(f"correspondence lex ({what}): {len(dis)} disagreements, minimised {s2!r}: {d}")
    res.sample({"disagreement": s2})
    save_corpus(s2)
    neighbourhood_oracle(res, s2, want)


def save_corpus(src):
    """minimised past failures run first (never used to suppress anything)"""
    import os, json
    from core import VERIF
    d = os.path.join(VERIF, "corpus")
    os.makedirs(d, exist_ok=True)
    p = os.path.join(d, "lex.json")
    cur = json.load(open(p)) if os.path.exists(p) else []
    if not any(x["src"] == src for x in cur) and len(cur) < 500:
        cur.append({"src": src})
        with open(p, "w") as f:
            json.dump(cur, f, indent=0)


def neighbourhood_oracle(res, s, want):
    """failing-input search around a disagreeing input: the property oracle on the
    implementation for every single-character edit of `s` embedded in a few contexts."""
    from impl import lex_impl
    cands = set()
    for ctx in ("%s", "%s x", "a %s\n", "\t%s;", "x\n%s y"):
        base = ctx % s
        cands.add(base)
        for i in range(len(base)):
            cands.add(base[:i] + base[i + 1:])
            for ch in " \t\nax0'\"\\":
                cands.add(base[:i] + ch + base[i:])
    for c in sorted(cands)[:3000]:
        i = lex_impl(c, timeout=5.0)
        res.count("lex.search", 1)
        if i.get("exc"):
            if "C05" in want:
                res.report(i["exc"], f"tokenizer raises on {c!r}", {"kind": "lex", "src": c, "observed": i["exc"]})
            continue
        for prop, cls, why in O.check_stream(c, i["tokens"], i["diags"]):
            if prop in want:
                res.report(f"lex:{prop}:{cls}", why, {"kind": "lex", "src": c, "observed": why})
