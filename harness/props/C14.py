"""C14 — include-guard validation follows the file name."""
import random
import itertools

import families
from core import Driver, cps
from gen import header

LEVEL_NOTE = [
    "theorems C14.guardOf_spec / c_file_never / accept_ifndef / accept_endif / wrong_symbol / missing_define / doubled / code_before / code_after are about Model/Guard.lean::guardCheck, the decision logic of CheckPreprocessorProtection.run, for every base name over [a-z0-9_.] and every macro symbol",
    "tie: `guard` snapshot correspondence — every call of the real rule is observed (wrapper installed by the harness): what it reads from the context (file type, directive, symbol, preproc.indent, protected, has_macro_defined, history) is given to the model, which must emit the same codes and the same `protected` flag; plus the guard oracle on generated names x bodies x mutations",
]
PARTIAL = [
    "what the rule READS (preproc.indent, the macro table, the history) is maintained by IsPreprocessorStatement (unported): that a conforming body leaves indent = 1 / 0 at the guard lines and that `# define G` enters the macro table is observed, not proved",
    "G7 (a header with declarations and no guard at all gets no diagnostic): known finding diag:HEADER_PROT@unguarded-header",
]


def observe_guard_calls(name, src, R_opt=None):
    """run the real pipeline, recording inputs/outputs of every CheckPreprocessorProtection.run"""
    import io, contextlib
    from impl import watchdog, registry
    from norminette.file import File
    from norminette.lexer import Lexer
    from norminette.context import Context
    from norminette.exceptions import CParsingError
    from norminette.rules.check_preprocessor_protection import CheckPreprocessorProtection as R
    calls = []
    orig = R.run

    def run(self, context):
        snap = None
        try:
            i = context.skip_ws(0)
            j = context.skip_ws(i + 1)
            t = context.peek_token(j)
            d = {"dir": "other"}
            if t is not None and t.type == "IDENTIFIER" and t.value.upper() in ("IFNDEF", "ENDIF"):
                if t.value.upper() == "ENDIF":
                    # independent of the context helpers: is anything but blanks and comments left after `endif`
                    rest = context.tokens[j + 1:]
                    d = {"dir": "endif", "after": any(x.type not in ("SPACE", "TAB", "NEWLINE", "COMMENT", "MULT_COMMENT") for x in rest)}
                else:
                    k = context.skip_ws(j + 1)
                    m = context.peek_token(k)
                    d = {"dir": "ifndef", "sym": cps(m.value) if m is not None and m.value is not None else None}
            guard = context.file.basename.upper().replace(".", "_")
            hist = [h for h in context.history[:-1] if h not in ("IsComment", "IsEmptyLine")]
            snap = dict(d, op="guard", base=cps(context.file.basename), isHeader=context.file.type == ".h",
                        indent=context.preproc.indent, prot=bool(context.protected),
                        defined=bool(context.preproc.has_macro_defined(guard)), codeBefore=bool(hist))
        except Exception:
            snap = None
        before = len(context.errors._inner)
        ret = orig(self, context)
        if snap is not None and snap.get("sym", 1) is not None:
            new = [e.name for e in context.errors._inner[before:]]
            calls.append((snap, new, bool(context.protected)))
        return ret
    f = File(name, src)
    R.run = run
    outcome = "ok"
    try:
        with watchdog(10), contextlib.redirect_stdout(io.StringIO()):
            registry().run(Context(f, list(Lexer(f)), 0, R_opt))
    except CParsingError:
        outcome = "fatal"
    except BaseException as e:
        outcome = "crash:" + type(e).__name__
    finally:
        R.run = orig
    diags = [(e.name, e.highlights[0].lineno) for e in f.errors if e.name.startswith("HEADER_PROT")]
    # "accepted" also means: nothing is held against the three lines of the guard themselves
    guard = name.upper().replace(".", "_")
    glines = {i + 1 for i, l in enumerate(src.split("\n")) if "".join(l.split()) in ("#ifndef" + guard, "#define" + guard, "#endif")}
    GUARD_LINE[0] = [(e.name, e.highlights[0].lineno) for e in f.errors if e.level == "Error" and e.highlights[0].lineno in glines
                     and not e.name.startswith("HEADER_PROT") and e.name not in ("INVALID_HEADER", "LINE_TOO_LONG")]
    return outcome, diags, calls


GUARD_LINE = [[]]


def names(rng, n):
    out = ["libft.h", "a.h", "ft.list.h", "x..h", "a_b2.h", "a.b.c.h", "get_next_line.h", "z9.h", "_priv.h"]
    al = "abcdefghijklmnopqrstuvwxyz0123456789_."
    while len(out) < n:
        k = rng.randint(1, 18)
        s = rng.choice("abcdefghijklmnopqrstuvwxyz_") + "".join(rng.choice(al) for _ in range(k - 1))
        out.append(s + ".h")
    return out[:n]


def body(rng):
    decls = ["int\tft_a(int x);", "char\t*ft_b(void);", "# include <stdlib.h>", "# define N 3", "typedef struct s_p\n{\n\tint\tx;\n}\tt_p;"]
    k = rng.randint(1, 3)
    return "\n".join(rng.sample(decls, k)) + "\n"


LAYOUTS = [
    ("endif-block-comment", lambda t, g: t[:-1] + f" /* {g} */\n"),
    ("endif-line-comment", lambda t, g: t[:-1] + f" // {g}\n"),
    ("endif-then-block-comment", lambda t, g: t + "/* end of file */\n"),
    ("endif-then-comment-lines", lambda t, g: t + "// a\n/*\n** b\n*/\n"),
    ("endif-then-empty-line", lambda t, g: t + "\n"),
    ("endif-no-final-newline", lambda t, g: t[:-1]),
    ("comment-before-ifndef", lambda t, g: t.replace(f"#ifndef {g}", f"/* guard */\n#ifndef {g}")),
    ("line-comment-before-ifndef", lambda t, g: t.replace(f"#ifndef {g}", f"// guard\n#ifndef {g}")),
    ("comment-after-ifndef", lambda t, g: t.replace(f"#ifndef {g}\n", f"#ifndef {g} /* c */\n")),
    ("comment-after-define", lambda t, g: t.replace(f"# define {g}\n", f"# define {g} /* c */\n")),
    ("comment-between", lambda t, g: t.replace(f"# define {g}\n", f"# define {g}\n/* c */\n")),
    ("spaces-inside-directives", lambda t, g: t.replace(f"#ifndef {g}", f"#  ifndef   {g}").replace("#endif", "# endif")),
]


def variants(base, rng):
    g = base.upper().replace(".", "_")
    b = body(rng)
    h = header.header42(base)
    ok = f"{h}\n#ifndef {g}\n# define {g}\n\n{b}\n#endif\n"
    out = [("correct", base, ok, set())]
    # layouts that say the same thing: comments and blank lines around the guard lines change nothing
    lay = rng.choice(LAYOUTS)
    out.append(("correct/" + lay[0], base, lay[1](ok, g), set()))
    lay2 = rng.choice(LAYOUTS)
    out.append(("G3_no_define/" + lay2[0], base, lay2[1](ok.replace(f"# define {g}\n", ""), g), {"HEADER_PROT_NODEF"}))
    out.append(("G6_code_after/" + lay2[0], base, lay2[1](ok, g) + "int\tft_late(void);\n", {"HEADER_PROT_ALL_AF"}))
    other = "OTHER_" + g if len(g) < 10 else g[:-1] + "X"
    out.append(("G1_other_symbol", base, ok.replace(f"#ifndef {g}", f"#ifndef {other}").replace(f"# define {g}", f"# define {other}"), {"HEADER_PROT_NAME"}))
    if g.lower() != g:
        low = g.lower() if rng.random() < 0.5 else g[0] + g[1:].lower()
        if low != g:
            out.append(("G2_lower_case", base, ok.replace(f"#ifndef {g}", f"#ifndef {low}").replace(f"# define {g}", f"# define {low}"), {"HEADER_PROT_UPPER"}))
    out.append(("G3_no_define", base, ok.replace(f"# define {g}\n", ""), {"HEADER_PROT_NODEF"}))
    out.append(("G3_other_define", base, ok.replace(f"# define {g}", f"# define {g}X"), {"HEADER_PROT_NODEF"}))
    out.append(("G4_doubled", base, ok + f"#ifndef {g}\n# define {g}\n#endif\n", {"HEADER_PROT_MULT"}))
    out.append(("G5_code_before", base, ok.replace(f"#ifndef {g}", f"int\tft_early(void);\n#ifndef {g}"), {"HEADER_PROT_ALL"}))
    out.append(("G6_code_after", base, ok + "int\tft_late(void);\n", {"HEADER_PROT_ALL_AF"}))
    # two mutations at once: each diagnostic is still there
    T = {
        "G1": (lambda t: t.replace(f"#ifndef {g}", f"#ifndef {other}").replace(f"# define {g}", f"# define {other}"), {"HEADER_PROT_NAME"}),
        "G3": (lambda t: t.replace(f"# define {g}\n", ""), {"HEADER_PROT_NODEF"}),
        "G4": (lambda t: t + f"#ifndef {g}\n# define {g}\n#endif\n", {"HEADER_PROT_MULT"}),
        "G5": (lambda t: t.replace("\n#ifndef ", "\nint\tft_early(void);\n#ifndef ", 1), {"HEADER_PROT_ALL"}),
        "G6": (lambda t: t + "int\tft_late(void);\n", {"HEADER_PROT_ALL_AF"}),
    }
    if g.lower() != g:
        T["G2"] = (lambda t: t.replace(f"#ifndef {g}", f"#ifndef {g.lower()}").replace(f"# define {g}", f"# define {g.lower()}"), {"HEADER_PROT_UPPER"})
    for x, y in (("G1", "G5"), ("G2", "G5"), ("G1", "G6"), ("G3", "G5"), ("G3", "G6"), ("G5", "G6"), ("G2", "G6"), ("G1", "G3")):
        if x in T and y in T and rng.random() < 0.5:
            out.append((f"{x}+{y}", base, T[y][0](T[x][0](ok)), T[x][1] | T[y][1]))
    out.append(("G7_unguarded", base, f"{h}\n{b}", {"HEADER_PROT_*"}))
    cname = base[:-2] + ".c"
    out.append(("G8_c_name", cname, ok, "none"))
    return out


def run(res, tier, br, model_ok=True, search=False):
    rng = random.Random(res.seed + 127)
    big = tier == "thorough" or search
    reqs, metas = [], []
    for base in names(rng, 60 if big else 14):
        for vname, fname, text, want in variants(base, rng):
            # the norminette-2 compatibility option must not change the protection diagnostics
            r_opt = rng.choice([None, None, "CheckDefine", "CheckForbiddenSourceHeader"])
            if r_opt:
                vname = vname + "/-R " + r_opt
            outcome, diags, calls = observe_guard_calls(fname, text, r_opt)
            res.count("guard", 1)
            res.nontriv((vname, fname, text[-200:]))
            rp = {"kind": "guard", "name": fname, "variant": vname, "src": text, "R": r_opt}
            if outcome != "ok":
                if vname.split("/")[0] in ("correct", "G8_c_name"):
                    res.report("guard:not-analysed", f"{fname} [{vname}]: outcome {outcome}", rp)
                continue
            codes = {d[0] for d in diags}
            if want == set() and vname.split("/-R")[0] == "correct" and GUARD_LINE[0]:
                res.report("guard:spurious", f"{fname} [{vname}]: the correct guard is not accepted: {GUARD_LINE[0][:3]}", rp)
            if want == "none" or want == set():
                if codes:
                    res.report("guard:spurious" if want == set() else "guard:c-file-checked", f"{fname} [{vname}]: {sorted(codes)}", rp)
            elif want == {"HEADER_PROT_*"}:
                if not codes:
                    res.report("diag:HEADER_PROT@unguarded-header", f"{fname}: declarations and no guard, no protection diagnostic", rp)
            elif not (want <= codes):
                res.report(f"guard:missing-{sorted(want)[0]}", f"{fname} [{vname}]: expected {sorted(want)}, got {sorted(codes)}", rp)
            for snap, new, prot in calls:
                reqs.append(snap)
                metas.append((new, prot, rp))
    if model_ok and reqs:
        nbad, first = 0, None
        for (new, prot, rp), m in zip(metas, Driver().batch(reqs)):
            res.traces_validated += 1
            if "error" in m or m["codes"] != new or m["prot"] != prot:
                nbad += 1
                first = first or (rp["name"], rp["variant"], new, prot, str(m)[:200])
        if nbad:
            res.broken.append(f"correspondence guard (rule snapshots): {nbad} disagreements, e.g. {first}")
    links(res, rng, big)
    # repository samples (.h) through the snapshot correspondence too
    for name, src in [x for x in families.repo_samples() if x[0].endswith(".h")]:
        outcome, diags, calls = observe_guard_calls(name, src)
        res.count("guard.samples", 1)
    res.sample({"guard": variants("libft.h", rng)[1][2][-120:]})


def links(res, rng, big):
    """the guard follows the name the file was GIVEN under: a header reached through a symbolic link is checked against
    the link's name, a `.c` link to a header text is not checked at all (real command line, JSON report)"""
    import os, json, shutil, tempfile
    from impl import main_inprocess
    mk = lambda g: f"#ifndef {g}\n# define {g}\n\nint\tf(void);\n\n#endif\n"
    d = tempfile.mkdtemp(prefix="verif_c14_")
    try:
        os.makedirs(os.path.join(d, "vendor")); os.makedirs(os.path.join(d, "inc")); os.makedirs(os.path.join(d, "src"))
        cases = [("list.h", "FT_LIST_H", "inc/ft_list.h", set()), ("other.h", "OTHER_H", "inc/ft_other.h", {"HEADER_PROT_NAME"}),
                 ("third.h", "THIRD_H", "src/defs.c", "none"), ("up.h", "INC__UP_H", "inc/_up.h", {"HEADER_PROT_NAME"}), ("ok.h", "_OK_H", "inc/_ok.h", set())]
        for target, g, link, want in cases:
            open(os.path.join(d, "vendor", target), "w").write(mk(g))
            os.symlink(os.path.join("..", "vendor", target), os.path.join(d, link))
        for target, g, link, want in cases:
            for arg in ([link], [os.path.dirname(link)]):
                out = main_inprocess(["-f", "json"] + arg, d)
                res.count("guard.links", 1)
                res.nontriv(("link", link, tuple(arg)))
                try:
                    doc = json.loads(out["stdout"])
                except Exception:
                    continue
                ent = [f for f in doc["files"] if os.path.basename(f["path"]) == os.path.basename(link)]
                rp = {"kind": "guard-link", "target": target, "guard": g, "link": link, "arg": arg}
                if len(ent) != 1:
                    res.report("guard:link-not-reported", f"{link} -> vendor/{target}: {len(ent)} report entries under the link's name; files listed {[f['path'] for f in doc['files']]}", rp)
                    continue
                codes = {e["name"] for e in ent[0]["errors"] if e["name"].startswith("HEADER_PROT")}
                if want == "none" or want == set():
                    if codes:
                        res.report("guard:spurious" if want == set() else "guard:c-file-checked", f"{link} -> vendor/{target} (guard {g}): {sorted(codes)}", rp)
                elif not (want <= codes):
                    res.report(f"guard:missing-{sorted(want)[0]}", f"{link} -> vendor/{target} (guard {g}): expected {sorted(want)}, got {sorted(codes)}", rp)
    finally:
        shutil.rmtree(d, ignore_errors=True)


def reproduce(res, k):
    if k.get("input") is None:
        return
    outcome, diags, calls = observe_guard_calls(k.get("input_name", "x.h"), k["input"])
    if outcome == "ok" and not diags:
        res.report(k["signature"], "recorded input of a listed finding", {"kind": "guard", "name": k.get("input_name"), "src": k["input"]})


def replay(rp):
    if rp.get("kind") == "guard-link":
        import core
        r = core.Result("C14", "replay", 0)
        import random
        links(r, random.Random(0), True)
        bad = [v for v in r.violations if v[2].get("link") == rp["link"]]
        for v in bad:
            print("VIOLATED:", v[0], v[1][:300])
        return 1 if bad else 0
    if rp.get("kind") != "guard":
        print("replay names a broken obligation/correspondence:", rp.get("broken"))
        return 1
    outcome, diags, calls = observe_guard_calls(rp["name"], rp["src"], rp.get("R"))
    print("variant:", rp.get("variant"), "file:", rp["name"], "outcome:", outcome, "protection diagnostics:", diags)
    print(rp["src"][-400:])
    return 1
