"""C16 — options change the presentation, never the findings."""
import os
import re
import json
import shutil
import random
import tempfile
import itertools

import families
from impl import run_cli, main_inprocess
from props.C08 import parse_human

LEVEL_NOTE = [
    "theorem C08.formats_agree: the JSON document projects exactly onto the humanized one (same files, verdicts, diagnostics, order) for every list of files — so -f json|humanized and --no-colors cannot change the findings in the model of the formatters; C16.options_table: the argparse table regenerated from main (Generated/Cli.lean) has exactly the options the model of main knows, and Generated/Facts.lean lists which attributes of `args` main reads (only debug and R reach the analysis)",
    "tie: the CLI is run under every combination of {--no-colors, -f json|humanized, -o, -d, -dd, -R <word>, -R CheckDefine} and inline vs stored content; outputs are parsed and projected to (file, verdict, diagnostics)",
]
PARTIAL = [
    "C16_debug / C16_skip_define: that `debug` and `skip_define` do not influence any diagnostic other than the #define-value ones is decided by the option oracle (rules unported); Generated/Facts.lean lists the modules that read `.debug` (obligation debug_readers_known)",
]

DEFINE_CODES = {"MACRO_NAME_CAPITAL", "MACRO_FUNC_FORBIDDEN", "PREPROC_CONSTANT"}
DIAG_RE = re.compile(r"^(Error|Notice): (\S+)\s+\(line:\s*(\d+), col:\s*(\d+)\):\t(.*)$")


def parse_any(stdout, fmt):
    """[(basename, status, sorted [(level, code, line, col)])] from either format (debug lines skipped)"""
    if fmt == "json":
        jl = [l[l.index('{"files"'):] for l in stdout.split("\n") if '{"files"' in l]     # may follow a debug dump on the same line
        if not jl:
            return None
        doc = json.loads(jl[-1])
        return [(os.path.basename(f["path"]), f["status"],
                 sorted((e["level"], e["name"], e["highlights"][0]["lineno"], e["highlights"][0]["column"]) for e in f["errors"]))
                for f in doc["files"]]
    files = []
    for line in stdout.split("\n"):
        line = re.sub(r"\x1b\[\d+m", "", line)
        m = DIAG_RE.match(line)
        if m and files:
            files[-1][2].append((m.group(1), m.group(2), int(m.group(3)), int(m.group(4))))
            continue
        # with -dd the token dump of an unterminated literal ends without a newline, so the verdict can follow `> ` on the same line
        m = re.match(r"^(?:.*> )?([^\s:>][^:>]*\.[ch]): (OK|Error)!$", line)
        if m:
            files.append([os.path.basename(m.group(1)), m.group(2), []])
    return [(a, b, sorted(c)) for a, b, c in files]


OPTS = [[], ["--no-colors"], ["-f", "json"], ["-f", "humanized"], ["-o"], ["-d"], ["-dd"], ["-R", "Foo"],
        ["-R", "CheckForbiddenSourceHeader"], ["-R", "CheckDefines"], ["-R", "NoCheckDefine"], ["-R", "checkdefine"],
        ["--no-colors", "-f", "json", "-o"], ["-d", "--no-colors"], ["-dd", "-f", "json"], ["-o", "-R", "x", "-d"]]


def run(res, tier, br, model_ok=True, search=False):
    rng = random.Random(res.seed + 107)
    big = tier == "thorough" or search
    progs = families.programs(rng, 30 if big else 6)
    viol = families.violating(rng, progs, per_prog=2)
    # lexical diagnostics that carry several highlights (each format picks the position it shows from them)
    lexical = [("octal.c", "int\tf(void)\n{\n\treturn (0897);\n}\n"), ("binary.c", "int\tg_b = 0b12013;\n"),
               ("string.c", "int\tf(char *s)\n{\n\ts = \"abc;\n}\n"), ("esc.c", "char\tg_c = 'ab';\nchar\tg_d = '\\q';\n")]
    files = lexical[:2] + [(p.name, p.text) for p in progs[:3]] + lexical[2:] + [(p.name, t) for p, op, site, t, line in viol]
    files += [("defs.c", "#define limit 1 + 2\n#define SQUARE(x) x * x\n#define OK 1\n#define lower_ok 3\n\nint\tmain(void)\n{\n\treturn (OK);\n}\n"),
              ("notice.c", "int\tg_counter;\n"),
              ("defs.h", "#ifndef DEFS_H\n# define DEFS_H\n# define bad(x) (x + 1)\n# define N 1 +\n#endif\n")]
    # the same content, stored or passed inline, whatever it starts or ends with (signature, empty lines, no final
    # newline, characters outside ASCII, a page break)
    files += [("bom.c", "\ufeffint\tg_a;\n"), ("ff.c", "int\tg_a;\n\f\nint\tg_b;\n"), ("nonl.c", "int\tg_a;"), ("leadnl.c", "\n\nint\tg_a;\n"),
              ("trailnl.c", "int\tg_a;\n\n\n"), ("uni.c", "/* caf\u00e9 */\nchar\t*g_s = \"na\u00efve \u2603\";\n"), ("onlynl.h", "\n"),
              ("leadhdr.c", "\n" + families.header.header42("leadhdr.c") + "\nint\tg_a;\n"), ("sp.c", " \nint\tg_a;\n \n")]
    # every kind of statement, the forbidden ones included (the debug level must not change how any of them is read)
    files += [("stmts.c", "int\tf(int a, int *tbl, void *ptr)\n{\n\tint\ti;\n\n\ti = 0;\n\tgoto end;\n\tgoto *ptr;\n\tgoto (tbl[i]);\n\tgoto *(ptr);\n"
               "\tdo\n\t{\n\t\ti++;\n\t}\twhile (i < a);\n\tfor (i = 0; i < a; i++)\n\t\ta--;\n\tswitch (a)\n\t{\n\t\tcase 1:\n\t\t\tbreak ;\n\t\tdefault:\n\t\t\tbreak ;\n\t}\n"
               "\ti = a ? 1 : 2;\n\ti = (a, i);\n\ttbl[i++] = (int)sizeof(a) + (*tbl)++;\nend:\n\treturn (i);\n}\n\nstruct s_a\tg_v = {.a = 1};\nint\t(*g_fp)(int) = 0;\n")]
    files += families.repo_samples()[:: (3 if big else 12)]
    tmp = tempfile.mkdtemp(prefix="verif_c16_")
    try:
        for k, (name, src) in enumerate(files):
            d = os.path.join(tmp, f"f{k}")
            os.makedirs(d)
            open(os.path.join(d, name), "w", encoding="utf-8").write(src)
            base = main_inprocess([name], d)
            if base.get("exc") or base["exit"] is None:
                continue
            b = parse_any(base["stdout"], "humanized")
            if not b or len(b) != 1:
                continue            # fatal parse error: not "analysed to a verdict"
            rp = {"kind": "options", "name": name, "src": src}
            hand = name in ("defs.c", "notice.c", "defs.h", "octal.c", "binary.c", "string.c", "esc.c", "stmts.c")
            opts = OPTS if (big or k < 4 or hand) else rng.sample(OPTS, 5)
            for o in opts:
                use_sub = (k + len(o)) % 9 == 0
                out = run_cli(o + [name], d) if use_sub else main_inprocess(o + [name], d)
                res.count("options", 1)
                res.nontriv((name, tuple(o), src))
                if out.get("exc") or out.get("hang") or out["exit"] is None:
                    res.report("options:crash", f"{name} with {o}: {out.get('exc') or out.get('stderr','')[-150:]}", dict(rp, opts=o))
                    continue
                fmt = "json" if "json" in o else "humanized"
                got = parse_any(out["stdout"], fmt)
                if got != b:
                    res.report("options:findings-differ", f"{name} with {' '.join(o)}: {got} instead of {b}"[:600], dict(rp, opts=o))
                if (out["exit"] == 0) != (b[0][1] == "OK"):
                    res.report("options:exit", f"{name} with {' '.join(o)}: exit {out['exit']} for verdict {b[0][1]}", dict(rp, opts=o))
            # -R CheckDefine removes only the #define-value diagnostics
            out = main_inprocess(["-R", "CheckDefine", name], d)
            got = parse_any(out["stdout"], "humanized")
            res.count("skip-define", 1)
            if got and len(got) == 1:
                define_lines = {i + 1 for i, l in enumerate(src.split("\n")) if l.lstrip("# \t").startswith("define") and l.lstrip().startswith("#")}
                removed = [x for x in b[0][2] if x not in got[0][2]]
                added = [x for x in got[0][2] if x not in b[0][2]]
                bad_removed = [x for x in removed if x[1] not in DEFINE_CODES or x[2] not in define_lines]
                kept_define = [x for x in got[0][2] if x[1] in DEFINE_CODES]
                if added or bad_removed or kept_define:
                    res.report("skip-define", f"{name} with -R CheckDefine: added {added[:3]}, wrongly removed {bad_removed[:3]}, #define diagnostics still present {kept_define[:3]}",
                               dict(rp, opts=["-R", "CheckDefine"]))
            # inline content: --cfile / --hfile with --filename
            flag = "--hfile" if name.endswith(".h") else "--cfile"
            for extra in ([], ["--no-colors"], ["-f", "json"]):
                out = main_inprocess(extra + [flag, src, "--filename", name], d)
                res.count("inline", 1)
                fmt = "json" if "json" in extra else "humanized"
                got = parse_any(out["stdout"], fmt) if out.get("exit") is not None else None
                if got != b:
                    res.report("inline:findings-differ", f"{name} passed with {flag}: {got} instead of {b}"[:600], dict(rp, opts=extra + [flag]))
        # the options act on EVERY file of a run alike: a file gets, as the second file of a run, what it gets alone
        # under the same options (and therefore what the same content gets inline)
        defs_src = "#define limit 1 + 2\n#define SQUARE(x) x * x\n#define OK 1\n\nint\tg_v = OK ? 1 : 2;\n"
        good_h = "#ifndef UTILS_H\n# define UTILS_H\n\nint\tf(void);\n\n#endif\n"
        bad_h = "#ifndef UTILS_H\n# define UTIL_H\n\nint\tf(void);\n\n#endif\n"
        pairs = [("first.c", defs_src, "second.c", defs_src), ("good/utils.h", good_h, "bad/utils.h", bad_h), ("bad/utils.h", bad_h, "good/utils.h", good_h),
                 ("n1.c", "int\tg_counter;\n", "second.c", defs_src), ("defs.h", "#ifndef DEFS_H\n# define DEFS_H\n# define bad(x) (x + 1)\n#endif\n", "first.c", defs_src)]
        for pk, (n1, s1, n2, s2) in enumerate(pairs):
            d = os.path.join(tmp, f"pair{pk}")
            for nm, sx in ((n1, s1), (n2, s2)):
                os.makedirs(os.path.dirname(os.path.join(d, nm)) or d, exist_ok=True)
                open(os.path.join(d, nm), "w").write(sx)
            for o in ([], ["-R", "CheckDefine"], ["-R", "Foo"], ["--no-colors", "-o"], ["-f", "json"], ["-R", "CheckDefine", "-f", "json"]):
                fmt = "json" if "json" in o else "humanized"
                alone = main_inprocess(o + [n2], d)
                both = main_inprocess(o + [n1, n2], d)
                res.count("second-file", 1)
                res.nontriv(("pair", pk, tuple(o)))
                if alone.get("exit") is None or both.get("exit") is None:
                    continue
                a_ = parse_any(alone["stdout"], fmt)
                b_ = parse_any(both["stdout"], fmt)
                if not a_ or not b_ or len(a_) != 1 or len(b_) != 2:
                    continue
                if b_[1][1:] != a_[0][1:]:
                    res.report("options:findings-differ", f"{n2} as the second file of a run with {' '.join(o) or 'no option'} (after {n1}): {b_[1][1:]} instead of {a_[0][1:]}"[:600],
                               {"kind": "pair", "opts": o, "files": {n1: s1, n2: s2}, "argv": [n1, n2]})
        # several files in one run: both formats list them in the order of the command line (separate processes)
        d = os.path.join(tmp, "multi")
        os.makedirs(d)
        multi = files[:9]
        names = []
        for k, (name, src) in enumerate(multi):
            nm = f"m{k}_{name}"
            open(os.path.join(d, nm), "w").write(src)
            names.append(nm)
        rng.shuffle(names)
        outs = {}
        for o in ([], ["-f", "json"], ["--no-colors", "-o"]):
            out = run_cli(o + names, d)
            res.count("multi", 1)
            if out.get("hang") or out["exit"] is None:
                continue
            got = parse_any(out["stdout"], "json" if "json" in o else "humanized")
            if got is not None and "Unrecognized" not in out["stdout"]:
                outs[tuple(o)] = got
                if [g[0] for g in got] != names[:len(got)] or len(got) != len(names):
                    res.report("options:file-order", f"with {o}: files listed as {[g[0] for g in got]}, command line {names}",
                               {"kind": "multi", "opts": o, "files": dict((n, s_) for n, (_, s_) in zip([f'm{k}_{nm}' for k, (nm, _) in enumerate(multi)], multi)), "argv": names})
        vals = list(outs.values())
        if any(v != vals[0] for v in vals[1:]):
            res.report("options:findings-differ", f"multi-file run: formats disagree {vals}"[:500], {"kind": "multi", "argv": names})
        res.sample({"options": files[0][0]})
    finally:
        shutil.rmtree(tmp, ignore_errors=True)


def replay_pair(rp):
    d = tempfile.mkdtemp(prefix="verif_c16p_")
    try:
        for nm, sx in rp["files"].items():
            os.makedirs(os.path.dirname(os.path.join(d, nm)) or d, exist_ok=True)
            open(os.path.join(d, nm), "w").write(sx)
        o, (n1, n2) = rp["opts"], rp["argv"]
        fmt = "json" if "json" in o else "humanized"
        a_ = parse_any(main_inprocess(o + [n2], d)["stdout"], fmt)
        b_ = parse_any(main_inprocess(o + [n1, n2], d)["stdout"], fmt)
        print("options :", o); print("alone   :", a_); print("as second file:", b_)
        return 0 if (a_ and b_ and len(b_) == 2 and b_[1][1:] == a_[0][1:]) else 1
    finally:
        shutil.rmtree(d, ignore_errors=True)


def replay(rp):
    if rp.get("kind") == "pair":
        return replay_pair(rp)
    if rp.get("kind") != "options":
        print("replay names a broken obligation/correspondence:", rp.get("broken"))
        return 1
    d = tempfile.mkdtemp(prefix="verif_c16r_")
    try:
        open(os.path.join(d, rp["name"]), "w").write(rp["src"])
        base = parse_any(main_inprocess([rp["name"]], d)["stdout"], "humanized")
        o = rp["opts"]
        if "--cfile" in o or "--hfile" in o:
            out = main_inprocess(o + [rp["src"], "--filename", rp["name"]], d)
        else:
            out = main_inprocess(o + [rp["name"]], d)
        got = parse_any(out["stdout"], "json" if "json" in o else "humanized")
        print("options :", o); print("baseline:", base); print("observed:", got)
        if o == ["-R", "CheckDefine"]:
            return 1
        return 0 if got == base else 1
    finally:
        shutil.rmtree(d, ignore_errors=True)
