"""C12 — alternative spellings and line splices do not change the tokens."""
import random

import families
import faults
import lexcorr as L
from props import lexcommon

LEVEL_NOTE = [
    "theorems C12.lex_respell / tokens_respell (the FULL simulation, every text): a text and any respelling of it (C12.Respelled: punctuator characters written as table entries; `? < % :` kept only where both texts read them as themselves) are lexed item by item into the same kinds, values and bad lexemes — numbers, literals with escapes, identifiers, comments, operators by longest match, brackets, splices in both spellings inside and between tokens. Exceptions that are true of the code and part of the statement: the text of a block comment (tabs expanded by column) and everything after a stray backslash (a lexical error: one raw character is skipped)",
    "theorems C12.tables_are_the_standard / peek_respell / respelled_reads_same / operator_longest_match / punctuator_token / bracket_spellings / splice_between_tokens: the tables are exactly those of C11 §6.4.6 / §5.2.1.1; `peek` returns the standard character for every entry and continuation; longest match (incl. the raw three-character look-ahead) is spelling-independent",
    "tie: `lex` correspondence on respelled/spliced texts + regenerated dictionaries and pattern texts",
]
PARTIAL = [
    "C12_engine_partial (diagnostics unchanged apart from columns when braces/brackets are respelled): oracle on the implementation (random subsets, and one bracket at a time in both spellings on a text where brackets stand next to everything); depends on unported rules",
]

ALT = {"{": ["<%", "??<"], "}": ["%>", "??>"], "[": ["<:", "??("], "]": [":>", "??)"], "#": ["%:", "??="],
       "^": ["??'"], "|": ["??!"], "~": ["??-"]}
RESPELLABLE = {"LBRACE", "RBRACE", "LBRACKET", "RBRACKET", "HASH", "BWISE_XOR", "BWISE_OR", "BWISE_NOT", "OR", "OR_ASSIGN", "XOR_ASSIGN"}
GLUE_BEFORE = set("<%:?-+&|=!>*/^~.\\")
GLUE_AFTER = set("<>%:?=")


NEST = ("int\tg_tab[2][2] = {{1, 2}, {3, 4}};\nchar\t*g_names[] = {\"a\", \"b\"};\n\nint\tf(int *tab, t_s *s, char **av)\n{\n\tint\tloc[3];\n\n"
        "\tloc[0] = tab[1];\n\ttab[0]= 1;\n\ttab[0] =1;\n\tif (tab[0]&& tab[1]> 2)\n\t\treturn (tab[(0)] + av[0][1]);\n\ts->t[1].x = tab[0]? 1 : 2;\n"
        "\ttab[ 0] = loc[1 ];\n\ttab [1] = (int []){1, 2}[0];\n\tloc[2] = s->t[0] .x + s[1]->x + (tab)[1] * tab[1]* tab[2] *tab[0];\n\tf(tab, &s[0], &av[1]) ;\n"
        "\twhile (tab[0]--)\n\t{\n\t\tloc[1]++;\n\t}\n\treturn (tab[0]);\n}\n\nstruct s_a\n{\n\tint\tarr[4];\n\tchar\tc[2][3];\n};\n")


def kinds_values(r):
    return [(t[0], t[3]) for t in r["tokens"]]


def respell_text(src, spans, toks, rng, p_respell=0.5, p_splice=0.15, only_brackets=False, splices=True):
    """returns (new text, number of changes) or None"""
    out = []
    changes = 0
    prev_end = 0
    for k, ((a, b), t) in enumerate(zip(spans, toks)):
        gap = src[prev_end:a]
        out.append(gap)
        piece = src[a:b]
        ty = t[0]
        want = ty in RESPELLABLE and (not only_brackets or ty in ("LBRACE", "RBRACE", "LBRACKET", "RBRACKET"))
        if want and all(ch in ALT or ch == "=" for ch in piece) and rng.random() < p_respell:
            before = (src[a - 1] if a > 0 else " ")
            after = (src[b] if b < len(src) else " ")
            if before not in GLUE_BEFORE and after not in GLUE_AFTER:
                new = "".join(rng.choice(ALT[ch]) if ch in ALT else ch for ch in piece)
                if new != piece:
                    piece = new
                    changes += 1
        out.append(piece)
        prev_end = b
        # a splice after this token (at the boundary to the next one)
        if splices and rng.random() < p_splice and ty != "COMMENT" and k + 1 < len(toks):
            nxt = src[b] if b < len(src) else ""
            if nxt not in ("\n",) or True:
                # one splice, or several in a row (each in either spelling)
                out.append("".join(rng.choice(["\\\n", "??/\n"]) for _ in range(rng.choice([1, 1, 1, 2, 2, 3]))))
                changes += 1
    out.append(src[prev_end:])
    return "".join(out), changes


def operator_contexts():
    """every operator, every spelling of its respellable characters, every following context"""
    from norminette.lexer.dictionary import operators, brackets
    import itertools
    follow = ["", " ", "a", "1", "=", "|", "&", "+", "-", ">", "<", "??!", "??'", "%:", "<:", ";", "\n", "?", ":", "/", "*", "."]
    out = []
    for op in list(operators) + list(brackets):
        opts = [[ch] + ALT.get(ch, []) for ch in op]
        for combo in itertools.product(*opts):
            sp = "".join(combo)
            for f in follow:
                out.append((op, sp, f))
    return out


def translated(text):
    """the documented normalisation of a raw text (greedy trigraph, else digraph), for comparing contexts"""
    out = []
    i = 0
    while i < len(text):
        if text[i:i + 3] in L.TRI:
            out.append(L.TRI[text[i:i + 3]]); i += 3
        elif text[i:i + 2] in L.DI:
            out.append(L.DI[text[i:i + 2]]); i += 2
        else:
            out.append(text[i]); i += 1
    return "".join(out)


def run(res, tier, br, model_ok=True, search=False):
    from impl import lex_impl, pipeline, shown
    rng = random.Random(res.seed + 83)
    big = tier == "thorough" or search
    srcs_for_corr = []
    # (1) longest match in every spelling: finite family, exhaustive
    for op, sp, f in operator_contexts():
        a = "x " + op + f + " y"
        b = "x " + sp + f + " y"
        if translated(a) != translated(b):
            continue         # the following context itself combines with the respelling into another spelling
        ra, rb = lex_impl(a), lex_impl(b)
        res.count("operators", 1)
        if sp != op:
            res.nontriv(("op", sp, f))
        srcs_for_corr.append(b)
        if ra.get("exc") or rb.get("exc"):
            continue
        if kinds_values(ra) != kinds_values(rb):
            res.report("respell:operator", f"{op!r} spelled {sp!r} before {f!r}: {kinds_values(rb)[:6]} instead of {kinds_values(ra)[:6]}",
                       {"kind": "respell", "original": a, "respelled": b})
    # (2) programs and token sequences with subsets respelled / boundaries spliced
    progs = families.programs(rng, 60 if big else 10)
    viol = families.violating(rng, progs[: (30 if big else 5)], per_prog=2)
    bases = [(p.name, p.text) for p in progs] + [(p.name, t) for p, op, site, t, line in viol]
    # punctuators that follow, on their line, literals holding quote characters (a quote of the other kind, an escaped
    # quote, a quote as a character constant): where a literal ends is the lexer's business, not a matter of counting quotes
    bases += [("quotes.c", "int\tf(char *str, int i)\n{\n\tif (str[i] == '\"' && str[i + 1] != '\"')\n\t\treturn (ft_strchr(\"\\\"'\", str[i]) != 0);\n"
               "\tif (str[0] == '\\'' || str[1] == '\"')\n\t{\n\t\tstr[i] = \"'\"[0];\n\t}\n\tg_t[0] = '\"'; g_t[1] = \"\\\"\"[0]; g_u[2] = '\\'';\n\treturn (str[i] == \"a'b\"[1]);\n}\n"
               "#define Q '\"'\nint\tg_q[3] = {'\"', '\\'', 2};\n")] * (4 if big else 3)
    bases += [("seq%d.c" % i, s) for i, s in enumerate(L.sampled(rng, 120 if big else 30, 14))]
    bases += [(n, s) for n, s in (families.repo_samples() if big else families.repo_samples()[::6])]
    for name, src in bases:
        r0 = lex_impl(src)
        if r0.get("exc"):
            continue
        spans = faults.token_spans(src)
        if not spans or len(spans) != len(r0["tokens"]):
            continue
        if any(t[0] == "MULT_COMMENT" and "\t" in src[a:b] for (a, b), t in zip(spans, r0["tokens"])):
            continue         # tab expansion inside a block comment depends on the column: excluded (DESIGN §4.12)
        for v in range(6 if big else 3):
            new, ch = respell_text(src, spans, r0["tokens"], rng)
            if not ch:
                continue
            r1 = lex_impl(new)
            res.count("respell", 1)
            res.nontriv(("rs", new))
            srcs_for_corr.append(new)
            if r1.get("exc"):
                res.report(r1["exc"], f"{name}: tokenizer raises on a respelled text", {"kind": "respell", "original": src, "respelled": new})
                continue
            if kinds_values(r0) != kinds_values(r1):
                k0, k1 = kinds_values(r0), kinds_values(r1)
                i = next((i for i, (x, y) in enumerate(zip(k0, k1)) if x != y), min(len(k0), len(k1)))
                res.report("respell:tokens-differ", f"{name}: token {i} is {k1[i:i+3]} after respelling/splicing, was {k0[i:i+3]}",
                           {"kind": "respell", "original": src, "respelled": new})
        # (3) braces and brackets only, no splices: diagnostics unchanged apart from columns
        if name.endswith((".c", ".h")) and not name.startswith("seq"):
            new, ch = respell_text(src, spans, r0["tokens"], rng, p_respell=0.7, only_brackets=True, splices=False)
            if ch and max(len(l.expandtabs(4)) for l in new.split("\n")) <= 80:
                p0, p1 = pipeline(name, src), pipeline(name, new)
                res.count("respell.pipeline", 1)
                if p0["outcome"] == "ok" and p1["outcome"] == "ok":
                    d0 = sorted((d[1], d[2]) for d in shown(p0["diags"]))
                    d1 = sorted((d[1], d[2]) for d in shown(p1["diags"]))
                    if d0 != d1:
                        res.report("respell:diagnostics-differ", f"{name}: (code, line) {[x for x in d1 if x not in d0][:4]} appear / {[x for x in d0 if x not in d1][:4]} disappear when braces/brackets are respelled",
                                   {"kind": "respell-pipeline", "name": name, "original": src, "respelled": new})
                elif p0["outcome"] != p1["outcome"] and (p0["outcome"] in ("ok", "fatal")) :
                    res.report("respell:outcome-differs", f"{name}: outcome {p1['outcome']} after respelling braces/brackets, was {p0['outcome']}",
                               {"kind": "respell-pipeline", "name": name, "original": src, "respelled": new})
    # (4) one bracket or brace at a time, every occurrence, both spellings, in a text where they stand next to
    # everything (another bracket, an operator glued or spaced, `;`, `->`, a blank): diagnostics unchanged apart from columns
    for name, src in [("nest.c", NEST)] + [(p.name, p.text) for p in progs[: (6 if big else 1)]]:
        r0 = lex_impl(src)
        spans = faults.token_spans(src)
        if r0.get("exc") or not spans or len(spans) != len(r0["tokens"]):
            continue
        p0 = pipeline(name, src)
        if p0["outcome"] != "ok":
            continue
        d0 = sorted((d[1], d[2]) for d in shown(p0["diags"]))
        for (a, b), t in zip(spans, r0["tokens"]):
            if t[0] not in ("LBRACE", "RBRACE", "LBRACKET", "RBRACKET") or src[a:b] not in ALT:
                continue
            before = src[a - 1] if a > 0 else " "
            after = src[b] if b < len(src) else " "
            if before in GLUE_BEFORE or after in GLUE_AFTER:
                continue
            for sp in ALT[src[a:b]]:
                new = src[:a] + sp + src[b:]
                if kinds_values(lex_impl(new)) != kinds_values(r0):
                    continue        # this spelling combines with its neighbours: not a respelling of the same tokens
                p1 = pipeline(name, new)
                res.count("respell.each", 1)
                res.nontriv(("re", new))
                d1 = sorted((d[1], d[2]) for d in shown(p1["diags"])) if p1["outcome"] == "ok" else None
                if d1 != d0:
                    ln = src.count("\n", 0, a) + 1
                    res.report("respell:diagnostics-differ", f"{name} line {ln}: writing {src[a:b]!r} as {sp!r}: outcome {p1['outcome']}, (code, line) appear {[x for x in (d1 or []) if x not in d0][:4]} / disappear {[x for x in d0 if x not in (d1 or [])][:4]}",
                               {"kind": "respell-pipeline", "name": name, "original": src, "respelled": new})
    # correspondence on the respelled texts
    if model_ok and srcs_for_corr:
        impl = L.impl_many(srcs_for_corr)
        model = L.model_many(srcs_for_corr)
        dis = [(s, L.diff(i, m)) for s, i, m in zip(srcs_for_corr, impl, model) if L.diff(i, m)]
        res.traces_validated += len(srcs_for_corr)
        lexcommon.handle_disagreements(res, dis, (), None, "respelled texts")
    res.sample({"respelled": srcs_for_corr[len(srcs_for_corr) // 2][:200] if srcs_for_corr else None})


def replay(rp):
    from impl import lex_impl, pipeline, shown
    if rp.get("kind") == "respell":
        a, b = lex_impl(rp["original"]), lex_impl(rp["respelled"])
        print("original :", repr(rp["original"][:200])); print("respelled:", repr(rp["respelled"][:200]))
        ka, kb = kinds_values(a) if not a.get("exc") else a, kinds_values(b) if not b.get("exc") else b
        print("tokens equal:", ka == kb)
        return 0 if ka == kb else 1
    if rp.get("kind") == "respell-pipeline":
        p0, p1 = pipeline(rp["name"], rp["original"]), pipeline(rp["name"], rp["respelled"])
        d0 = sorted((d[1], d[2]) for d in shown(p0["diags"])); d1 = sorted((d[1], d[2]) for d in shown(p1["diags"]))
        print("original:", p0["outcome"], d0); print("respelled:", p1["outcome"], d1)
        return 0 if (p0["outcome"], d0) == (p1["outcome"], d1) else 1
    print("replay names a broken obligation/correspondence:", rp.get("broken"))
    return 1
