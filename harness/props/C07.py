"""C07 — every statement is examined exactly once; nothing is skipped silently."""
import random

import families
import faults
from core import Driver

LEVEL_NOTE = [
    "theorems C07.tiling / nonempty / no_silent_drop / statements_tile / terminates hold for EVERY rule table: `step` (which primary matches, with which jump) is universally quantified, so no assumption about the unported rules is needed for the partition and no-silent-drop clauses",
    "tie: `engine` correspondence — the real Registry.run is observed (wrappers around run_rules and Context.pop_tokens installed by the harness), the recorded rule decisions are replayed through Model/Engine.lean::engineRun and outcome, trace and unrecognised list must coincide",
]
PARTIAL = [
    "C07_align_partial / C07_depth: 'every statement of a conforming file starts at column 1 and ends at a line end' and 'nesting depth is back at file level after each function' depend on the primaries' jumps and scope handling (unported rules): checked by the oracle on the observed trace of every generated program, not proved",
]

# braces balanced by construction; comments / empty lines / directives between a header line and its brace
SHAPES = [
    ("sh1.h", "#ifndef SH1_H\n# define SH1_H\n\ntypedef struct s_pt\n// why\n{\n\tint\tx;\n}\tt_pt;\n\nint\tf(void);\nint\tg(void);\n\n#endif\n"),
    ("sh2.h", "#ifndef SH2_H\n# define SH2_H\n\ntypedef enum e_k\n\n{\n\tAA,\n\tBB\n}\tt_k;\n\nint\tf(void);\n\n#endif\n"),
    ("sh3.c", "int\tf(int a)\n/* note */\n\n\n{\n\treturn (a);\n}\n\nint\tg(int a)\n{\n\treturn (a);\n}\n"),
    ("sh4.c", "int\tf(int a)\n{\n\twhile (a)\n\t// c\n\t{\n\t\ta--;\n\t}\n\tif (a)\n\n\t{\n\t\ta++;\n\t}\n\treturn (a);\n}\n\nint\tg_z;\n"),
    ("sh5.c", "struct s_a\n#define X 1\n{\n\tint\tx;\n};\n\nint\tf(void)\n{\n\treturn (X);\n}\n"),
    ("sh6.c", "int\tf(int a)\n{\n\tif (a)\n\t\treturn (1);\n\telse c = 2;\n\telse\n\t\ta = 2;\n\treturn (a);\n}\n"),
    # the conditional operator wherever an expression may stand: enumerator, array size, initialiser, macro body, argument,
    # on a line that does not end in `;` too
    ("sh7.c", "enum e_k\n{\n\tK_A = (SZ > 4) ? 1 : 2,\n\tK_B\n};\n\nint\tg_t[SZ ? 1 : 2];\nint\tg_x = SZ ? 1 : 2;\n#define PICK(a) ((a) ? 1 : 2)\n\nint\tf(int a)\n{\n"
              "\ta = a ? f(a ? 1 : 2) : 3;\n\tif (a ? 1 : 0)\n\t\ta = f(a ?\n\t\t\t\t1 : 2);\n\treturn (a ? 1 : 2);\n}\n\nint\tg_after;\n"),
    ("sh8.h", "#ifndef SH8_H\n# define SH8_H\n\nenum e_k\n{\n\tK_A = (SZ > 4) ? 1 : 2,\n\tK_B\n};\n\ntypedef struct s_q\n{\n\tint\ttab[SZ ? 1 : 2];\n}\tt_q;\n\nint\tf(void);\n\n#endif\n"),
]

FRAGMENTS = [") )", "42", "\"lost\"", "1 + 2", ")", "+", "'x'", "]", "} }", ", ,", "x y z", "-> .", "= =", "? :", "[ 3"]


# statements that are not C in any reading and that the unchanged tool recognises with no rule (they start with an
# operator or a closer and name nothing, or their brackets do not balance before the `;`): the run stops with the fatal
# diagnostic.  (The unchanged tool does take `= a;`, `, x;`, `&& a;`, `x = ;` for statements - a recogniser that is
# looser than C, which the property's letter allows: a rule recognises them.  They are not in the list.)
FRAG_FATAL = ["= 5;", "+= 3;", "++;", "bar(1;", "j = (1;", "bar(1];", ");", "== 5;", "(;", "[;", "= ;", "5 +;", "1 2 3;", "*;",
              "x = (int;", "foo(];", "a[1) = 2;", "] = 1;", "x = f(a, (b);", "t[1 = 2;"]


# ... and those that are fatal even between a function header and its brace, or glued in front of the brace
FRAG_ANYWHERE = ["bar(1;", "j = (1;", "bar(1];", "(;", "[;", "x = (int;", "foo(];", "a[1) = 2;", "x = f(a, (b);", ")", ") )", "[ 3"]


def oracle_trace(res, name, src, tr, conforming=None):
    rp = {"kind": "trace", "name": name, "src": src}
    its = tr["iterations"]
    n = tr["n"]
    if n is None:
        return
    pos = 0
    unrec = 0
    for k, it in enumerate(its):
        if it["start"] != pos:
            res.report("partition:gap-or-overlap", f"{name}: iteration {k} starts at token {it['start']}, previous ended at {pos}", rp)
            return
        if it["popped"] < 1:
            res.report("partition:empty-statement", f"{name}: iteration {k} ({it['decision']}) consumed no token", rp)
            return
        if it["decision"] is None:
            unrec += 1
        pos += it["popped"]
    if tr["outcome"] == "ok":
        if pos != n:
            res.report("partition:not-covering", f"{name}: statements cover {pos} of {n} tokens", rp)
        if unrec:
            res.report("silent-drop", f"{name}: {unrec} token(s) recognised by no rule, yet the file is reported {tr.get('status')}", rp)
    if conforming is not None and tr["outcome"] == "ok":
        p = conforming
        for k, it in enumerate(its):
            if it["decision"] is None:
                continue
            if it["first"] and it["first"][2] != 1:
                res.report("conforming:statement-not-at-line-start", f"{name}: statement {k} {it['decision'][0]} starts at column {it['first'][2]} of line {it['first'][1]}", rp)
                break
            if it["last"] and it["last"][0] != "NEWLINE" and k != len(its) - 1:
                res.report("conforming:statement-not-ending-at-line-end", f"{name}: statement {k} {it['decision'][0]} ends with {it['last'][0]} on line {it['last'][1]}", rp)
                break
        # one statement per line, except `while (e)` + `;` on its own line, which is one statement
        nl = p.text.count("\n") - p.productions.get("Stmt.while_empty", 0)
        if len(its) != nl and not getattr(p, "comments", None):
            res.report("conforming:statement-count", f"{name}: {len(its)} statements examined, {nl} lines by construction", rp)
        if tr.get("final_scope") != "GlobalScope":
            res.report("conforming:depth", f"{name}: scope at end of file is {tr.get('final_scope')}", rp)
        # depth back at file level after each function
        close = {f["close_brace_line"] for f in p.functions}
        for k, it in enumerate(its):
            if it["last"] and it["last"][1] in close and it["decision"] and it["decision"][0] == "IsBlockEnd":
                nxt = its[k + 1] if k + 1 < len(its) else None
                if nxt is not None and nxt["lvl"] != 0:
                    res.report("conforming:depth", f"{name}: nesting depth {nxt['lvl']} after the function closed on line {it['last'][1]}", rp)
                    break


def run(res, tier, br, model_ok=True, search=False):
    from trace import run_traced, decisions
    rng = random.Random(res.seed + 43)
    big = tier == "thorough" or search
    progs = families.programs(rng, 150 if big else 30)
    viol = families.violating(rng, progs[: (80 if big else 10)], per_prog=2)
    cases = [(p.name, p.text, p) for p in progs] + [(p.name, t, None) for p, op, site, t, line in viol]
    # violating programs whose number of statements is known by construction: instructions joined on one line are
    # still examined one by one (`if (x) y = 1;`, `else y = 1;` keep the count, `a = 1; b++;` adds one)
    from gen import mutate
    counted = []
    for oid, delta in (("V43_body_on_control_line", 0), ("V43b_body_on_else_line", 0), ("V44_two_instructions", 1)):
        op = mutate.BY_ID[oid]
        done = 0
        for p in progs:
            if done >= (12 if big else 3) or getattr(p, "comments", None):
                continue
            try:
                sites = op.sites(p)
                if not sites:
                    continue
                text, line = op.apply(p, rng.choice(sites))
            except Exception:
                continue
            done += 1
            counted.append((p.name, text, p.text.count("\n") - p.productions.get("Stmt.while_empty", 0) + delta, oid))
    cases += [(n, s, None) for n, s in (families.repo_samples() if big else families.repo_samples()[::5])]
    # unrecognisable fragments at statement boundaries, with / without trailing newline
    frag_cases = []
    for p in progs[: (60 if big else 10)]:
        lines = p.text.split("\n")
        bounds = list(range(p.body_start_line - 1, len(lines)))
        for _ in range(12 if big else 5):
            b = rng.choice(bounds)
            frag = rng.choice(FRAGMENTS)
            nl = rng.random() < 0.6
            if b >= len(lines) - 1:
                text = p.text + frag + ("\n" if nl else "")
            else:
                text = "\n".join(lines[:b] + [frag] + lines[b:])
            frag_cases.append((p.name, text, None))
        frag_cases.append((p.name, p.text + rng.choice(FRAGMENTS), None))
    for kind, text in faults.snippet_prefixes()[:: (1 if big else 4)]:
        frag_cases.append(("snip.c", text, None))
    # ... and the fragments that must be fatal wherever they stand (not between a function header and its brace,
    # where the tool reads header, fragment and brace together)
    must_fatal = []
    for p in progs[: (60 if big else 12)]:
        lines = p.text.split("\n")
        bounds = [b for b in range(p.body_start_line - 1, len(lines)) if not lines[b].startswith("{")]
        for _ in range(10 if big else 5):
            b = rng.choice(bounds)
            frag = rng.choice(FRAG_FATAL)
            prev = lines[b - 1] if b > 0 else ""
            ind = "\t" if (prev.startswith("\t") or prev == "{") and rng.random() < 0.8 else ""
            if b >= len(lines) - 1:
                text = p.text + ind + frag + ("\n" if rng.random() < 0.6 else "")
            else:
                text = "\n".join(lines[:b] + [ind + frag] + lines[b:])
            must_fatal.append((p.name, text, frag))
        # between a header and its brace, glued in front of the brace; glued to the very last line, or after it on a
        # line that does not end
        heads = [b for b in range(p.body_start_line - 1, len(lines)) if lines[b].startswith("{")]
        for b in (heads if big else heads[:1]):
            frag = rng.choice(FRAG_ANYWHERE)
            must_fatal.append((p.name, "\n".join(lines[:b] + [frag] + lines[b:]), frag))
            frag = rng.choice(FRAG_ANYWHERE)
            must_fatal.append((p.name, "\n".join(lines[:b] + [frag + lines[b]] + lines[b + 1:]), frag))
        for _ in range(4 if (big or p.kind == "h") else 1):
            frag = rng.choice(FRAG_FATAL + FRAG_ANYWHERE)
            must_fatal.append((p.name, p.text.rstrip("\n") + frag, frag))
            frag = rng.choice(FRAG_FATAL + FRAG_ANYWHERE)
            must_fatal.append((p.name, p.text.rstrip("\n") + " " + frag + "\n", frag))
    allc = cases + frag_cases
    reqs, metas = [], []
    for name, src, conf in allc:
        for debug in ((0, 1) if rng.random() < 0.2 else (0,)):
            tr = run_traced(name, src, debug=debug)
            res.count("engine", 1, debug1=int(debug == 1))
            if tr["n"] and len(tr["iterations"]) >= 3:
                res.nontriv(("t", src, debug))
            if debug == 0:
                oracle_trace(res, name, src, tr, conforming=conf)
            if tr["outcome"] in ("ok", "fatal") and tr["n"] is not None and model_ok:
                reqs.append({"op": "engine", "n": tr["n"], "debug": debug, "decisions": decisions(tr)})
                metas.append((name, src, tr))
    for name, text, frag in must_fatal:
        tr = run_traced(name, text)
        res.count("fragments", 1)
        res.nontriv(("ff", text))
        oracle_trace(res, name, text, tr)
        if tr["outcome"] == "ok":
            res.report("fragment:not-fatal", f"{name}: the fragment {frag!r} at a statement boundary is taken for a statement: the file is reported {tr.get('status')} instead of the fatal diagnostic",
                       {"kind": "trace", "name": name, "src": text, "fragment": frag})
    for name, text, want, oid in counted:
        tr = run_traced(name, text)
        res.count("counted", 1)
        if tr["outcome"] == "ok" and len(tr["iterations"]) != want:
            res.report("violating:statement-count", f"{name} [{oid}]: {len(tr['iterations'])} statements examined, {want} by construction",
                       {"kind": "trace", "name": name, "src": text})
    for name, text in SHAPES:
        tr = run_traced(name, text)
        res.count("shapes", 1)
        oracle_trace(res, name, text, tr)
        if tr["outcome"] == "ok" and tr.get("final_scope") != "GlobalScope":
            res.report("depth:not-back-at-file-level", f"{name}: scope at end of file is {tr.get('final_scope')}", {"kind": "trace", "name": name, "src": text})
        if tr["outcome"] == "ok":
            # after a closing brace in column 1 (end of a function / a type definition) the depth is 0
            its = tr["iterations"]
            for k, it in enumerate(its[:-1]):
                if it["decision"] and it["decision"][0] == "IsBlockEnd" and it["first"] and it["first"][0] == "RBRACE" and it["first"][2] == 1 and its[k + 1]["lvl"] != 0:
                    res.report("depth:not-back-at-file-level", f"{name}: nesting depth {its[k + 1]['lvl']} after the block closed on line {it['first'][1]}",
                               {"kind": "trace", "name": name, "src": text})
                    break
    # fragments that are fatal everywhere, at every top-level boundary of the hand-written shapes
    for name, text in SHAPES:
        ls = text.split("\n")
        depth = 0
        for b, l in enumerate(ls):
            if depth == 0 and b > 0 and ls[b - 1].rstrip().endswith((";", "}")) and not l.startswith(("{", "#")) and (big or rng.random() < 0.5):
                frag = rng.choice(FRAG_ANYWHERE[:9])
                t2 = "\n".join(ls[:b] + [frag] + ls[b:])
                tr = run_traced(name, t2)
                res.count("fragments", 1)
                if tr["outcome"] == "ok":
                    res.report("fragment:not-fatal", f"{name}: the fragment {frag!r} above line {b + 1} is taken for a statement: the file is reported {tr.get('status')} instead of the fatal diagnostic",
                               {"kind": "trace", "name": name, "src": t2, "fragment": frag})
            depth += l.count("{") - l.count("}")
    cli_sequences(res, rng, progs, big)
    if model_ok and reqs:
        replies = Driver().batch(reqs)
        nbad, first = 0, None
        for (name, src, tr), m in zip(metas, replies):
            res.traces_validated += 1
            its = tr["iterations"]
            itrace = [[it["decision"][0], it["start"], it["popped"]] for it in its if it["decision"]]
            iunrec = [it["start"] for it in its if it["decision"] is None]
            ok = m.get("outcome") == tr["outcome"]
            if ok and tr["outcome"] == "ok":
                ok = m["trace"] == itrace and m["unrec"] == iunrec
            if ok and tr["outcome"] == "fatal" and tr["fatal_by"] == "engine":
                ok = m["trace"] == itrace
            if not ok:
                nbad += 1
                first = first or (name, tr["outcome"], tr.get("fatal_by"), str(m)[:200], src[-120:])
        if nbad:
            res.broken.append(f"correspondence engine: {nbad} disagreements, e.g. {first}")
    if model_ok:
        import alwayscorr
        alwayscorr.check(res, [(n, s_) for n, s_, _ in allc[:: (1 if big else 3)]])
    res.sample({"engine": {"name": allc[0][0], "iterations": [it["decision"] for it in run_traced(allc[0][0], allc[0][1])["iterations"][:12]]}})


def cli_sequences(res, rng, progs, big):
    """several files in ONE run of the real command line, some of them holding text that no rule recognises: whatever the
    order, no file is printed `OK!` unless it is OK when analysed alone, and the status is non-zero"""
    import os, shutil, tempfile
    from impl import main_inprocess, pipeline
    from props.C08 import parse_human
    d = tempfile.mkdtemp(prefix="verif_c07_")
    try:
        good = progs[0].text
        pool = {"good.c": good, "stray.c": good + "1;\n", "frag.c": good.replace("\n{\n", "\n{\n\t= 3;\n", 1), "closer.c": good + ") )\n",
                "viol.c": good.replace("\treturn", "\treturn ", 1), "good2.c": progs[1 % len(progs)].text}
        alone = {}
        for nm, text in pool.items():
            open(os.path.join(d, nm), "w").write(text)
            alone[nm] = pipeline(nm, text)
        names = list(pool)
        for _ in range(24 if big else 8):
            seq = rng.sample(names, rng.randint(2, 4))
            out = main_inprocess(seq, d)
            res.count("cli", 1)
            res.nontriv(("seq", tuple(seq)))
            rp = {"kind": "cli-seq", "files": {n: pool[n] for n in seq}, "argv": seq}
            if out.get("exc") or out["exit"] is None:
                res.report(out.get("exc") or "crash:main", f"run over {seq}: no exit status", rp)
                continue
            bad = [n for n in seq if alone[n]["outcome"] != "ok" or alone[n]["status"] != "OK"]
            for f in parse_human(out["stdout"]):
                nm = os.path.basename(f[0])
                if f[1] == "OK" and nm in alone and (alone[nm]["outcome"] != "ok" or alone[nm]["status"] != "OK"):
                    res.report("fragment:not-fatal" if alone[nm]["outcome"] == "fatal" else "verdict:ok-for-a-failing-file",
                               f"run over {seq}: {nm} is printed OK! although alone it is {alone[nm]['outcome']}/{alone[nm].get('status')}", rp)
            if bad and out["exit"] == 0:
                res.report("fatal:exit-zero", f"run over {seq}: exit status 0 although {bad} do not pass", rp)
    finally:
        shutil.rmtree(d, ignore_errors=True)


def replay_cli(rp):
    import os, shutil, tempfile
    from impl import main_inprocess, pipeline
    from props.C08 import parse_human
    d = tempfile.mkdtemp(prefix="verif_c07r_")
    try:
        for nm, text in rp["files"].items():
            open(os.path.join(d, nm), "w").write(text)
        out = main_inprocess(rp["argv"], d)
        print("argv:", rp["argv"]); print(out["stdout"][:600]); print("exit:", out["exit"])
        bad = 0
        for f in parse_human(out["stdout"]):
            nm = os.path.basename(f[0])
            if f[1] == "OK" and nm in rp["files"]:
                a = pipeline(nm, rp["files"][nm])
                if a["outcome"] != "ok" or a["status"] != "OK":
                    print("VIOLATED:", nm, "printed OK!, alone:", a["outcome"], a.get("status")); bad = 1
        return bad
    finally:
        shutil.rmtree(d, ignore_errors=True)


def replay(rp):
    if rp.get("kind") == "cli-seq":
        return replay_cli(rp)
    import core
    from trace import run_traced
    if rp.get("kind") != "trace":
        print("replay names a broken obligation/correspondence:", rp.get("broken"))
        return 1
    res = core.Result("C07", "replay", 0)
    tr = run_traced(rp["name"], rp["src"])
    print("outcome:", tr["outcome"], tr.get("status"), "iterations:", [(it["decision"], it["popped"]) for it in tr["iterations"]][-12:])
    oracle_trace(res, rp["name"], rp["src"], tr)
    if rp.get("fragment") and tr["outcome"] == "ok":
        print("the fragment", repr(rp["fragment"]), "did not stop the run")
        return 1
    for v in res.violations:
        print("VIOLATED:", v[0], v[1][:300])
    return 1 if res.violations else 0
