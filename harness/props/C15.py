"""C15 — exactly the requested C sources are checked."""
import os
import json
import shutil
import random
import tempfile
import subprocess
import collections

from core import Driver, cps, uncps

LEVEL_NOTE = [
    "A4 pathlib (exists/is_file/is_dir/suffix/name), glob.glob(recursive=True) and os.path.isfile behave as Model/Cli.lean::lookup/globCH say (regular files, no symlinks, names without quotes/newlines; hidden entries are skipped by glob and excluded from the statement); the order of directory listings is not modelled: selections are compared as multisets",
    "A5 exit codes of `git check-ignore -q`; A6 argparse",
    "theorems C15.selection / missing_aborts / default_is_cwd / other_suffix_rejected are about Model/Cli.lean::select; tie = `select` correspondence on generated trees (the model is given the same tree and argv and must predict the set of checked paths, the messages and the abort)",
]
PARTIAL = [
    "--use-gitignore: the filter `gitFilter` is modelled and compared (the git answers are taken from the real `git check-ignore`); no separate theorem beyond its definition",
]

FILES = ["a.c", "b.h", "my file.c", "x.y.c", "m.cc", "n.hh", "o.C", "p.c.bak", "README", "q.H", ".hid.c", "r.h", "s.c", "c", "h", "t.ch"]
DIRS = ["src", "inc", "d.c", "lib.h", ".git2", "sp ace", "e", "deep", "x.c"]
LINKS = ["ln.c", "lnk.h", "note", "l.k.c"]
CONTENT = "int\tg_x;\n"
# options that say nothing about which files are requested, before or after the paths
OPTIONS = [["-R", "CheckDefine"], ["-R", "CheckForbiddenSourceHeader"], ["--no-colors"], ["-f", "json"]]


def gen_tree(rng, depth=0):
    """list of (name, None | children)"""
    out = []
    names = set()
    for _ in range(rng.randint(0 if depth else 1, 4)):
        n = rng.choice(FILES)
        if n not in names:
            names.add(n)
            out.append((n, None))
    # a symbolic link to a regular file is a file under the link's own name
    plain = [n for n, c in out if c is None]
    if plain and rng.random() < 0.35:
        n = rng.choice(LINKS)
        if n not in names:
            names.add(n)
            out.append((n, "->" + rng.choice(plain)))
    if depth < 3:
        for _ in range(rng.randint(0, 2 if depth else 3)):
            n = rng.choice(DIRS)
            if n not in names:
                names.add(n)
                out.append((n, gen_tree(rng, depth + 1)))
    return out


def materialise(tree, root):
    for name, ch in tree:
        p = os.path.join(root, name)
        if ch is None:
            with open(p, "w") as f:
                f.write(CONTENT)
        elif isinstance(ch, str):
            os.symlink(ch[2:], p)
        else:
            os.makedirs(p)
            materialise(ch, p)


def entries(tree, prefix=()):
    out = []
    for name, ch in tree:
        out.append((prefix + (name,), isinstance(ch, list)))
        if isinstance(ch, list):
            out += entries(ch, prefix + (name,))
    return out


def gen_argv(rng, ents):
    files = [p for p, d in ents if not d]
    dirs = [p for p, d in ents if d]
    argv = []
    for _ in range(rng.randint(0, 5)):
        r = rng.random()
        if r < 0.45 and files:
            argv.append(rng.choice(files))
        elif r < 0.8 and dirs:
            argv.append(rng.choice(dirs))
        elif r < 0.9:
            argv.append(("nope.c",) if rng.random() < 0.5 else ("src", "missing"))
        elif argv:
            argv.append(rng.choice(argv))
    return argv


def expected_by_walk(root, argv):
    """the property statement, computed independently with os.walk"""
    sel = []
    msgs = []
    if not argv:
        argv_paths = [None]
    else:
        argv_paths = ["/".join(a) for a in argv]
    for a in argv_paths:
        full = root if a is None else os.path.join(root, a)
        if not os.path.exists(full):
            return None, msgs + [f"Error: '{a}' no such file or directory"], True
        if os.path.isfile(full):
            base = os.path.basename(a)
            if base.endswith(".c") or base.endswith(".h"):
                dot = base.rfind(".")
                if dot > 0:
                    sel.append(a)
                    continue
            msgs.append(f"Error: {base!r} is not valid C or C header file")
    for a in argv_paths:
        full = root if a is None else os.path.join(root, a)
        if os.path.isdir(full):
            for dp, dn, fn in os.walk(full):
                dn[:] = [d for d in dn if not d.startswith(".")]
                for f in fn:
                    if not f.startswith(".") and (f.endswith(".c") or f.endswith(".h")):
                        rel = os.path.relpath(os.path.join(dp, f), root)
                        sel.append(rel)
    return sel, msgs, False


def run(res, tier, br, model_ok=True, search=False):
    from impl import pipeline as _pl
    alone_by_ext = {}
    for ext in (".c", ".h"):
        _r = _pl("a" + ext, CONTENT)
        alone_by_ext[ext] = (_r.get("status"), len(_r.get("diags", [])))
    from impl import main_inprocess, run_cli
    rng = random.Random(res.seed + 59)
    n = 400 if (tier == "thorough" or search) else 60
    tmp = tempfile.mkdtemp(prefix="verif_c15_")
    reqs, metas = [], []
    try:
        for k in range(n):
            tree = gen_tree(rng)
            root = os.path.join(tmp, f"t{k}")
            os.makedirs(root)
            materialise(tree, root)
            ents = entries(tree)
            argv = gen_argv(rng, ents) if k % 6 else []
            args = ["/".join(a) for a in argv]
            use_sub = k % 25 == 0
            before, after = [], []
            for o in OPTIONS[:3]:
                r = rng.random()
                if r < 0.2:
                    before += o
                elif r < 0.4:
                    after += o
            if rng.random() < 0.5:
                before = ["-f", "json"] + before
            else:
                after = after + ["-f", "json"]
            full_argv = before + args + after
            out = (run_cli(full_argv, root) if use_sub else main_inprocess(full_argv, root))
            res.count("select", 1, subprocess=int(use_sub))
            if len(argv) >= 2:
                res.nontriv((str(tree), str(argv)))
            rp = {"kind": "select", "tree": tree, "argv": args, "full_argv": full_argv}
            if out.get("exc") or out.get("hang") or out.get("exit") is None:
                res.report(out.get("exc") or "hang@main", f"run on {args} did not end with an exit status", rp)
                continue
            # parse: messages first, then the JSON document
            lines = out["stdout"].split("\n")
            msgs = [l for l in lines if l.startswith("Error: ")]
            jl = [l for l in lines if l.startswith("{")]
            got = None
            if jl:
                try:
                    doc = json.loads(jl[-1])
                    got = [os.path.relpath(f["path"], os.path.realpath(root)) for f in doc["files"]]
                except Exception:
                    got = None
            # ---- oracle: the statement, by os.walk
            want, wmsgs, abort = expected_by_walk(root, argv)
            if abort:
                if out["exit"] == 0 or got:
                    res.report("missing-path-not-aborting", f"{args}: a nonexistent path, yet exit {out['exit']} and files {got}", rp)
            else:
                if got is None:
                    res.report("no-report", f"{args}: no JSON report in {out['stdout'][:120]!r}", rp)
                else:
                    # "checked" means analysed: every mention carries the verdict and the diagnostics the file
                    # gets when it is checked alone (all generated files have the same erroneous content)
                    for f in doc["files"]:
                        alone = alone_by_ext.get(f["path"][-2:])
                        if alone is not None and (f["status"], len(f["errors"])) != alone:
                            res.report("selection:listed-but-not-analysed", f"{args}: {os.path.basename(f['path'])} is listed with status {f['status']} and "
                                       f"{len(f['errors'])} diagnostics; checked alone it gives {alone}", rp)
                            break
                    cg, cw = collections.Counter(got), collections.Counter(want)
                    if cg != cw:
                        extra = sorted((cg - cw).elements())
                        missing = sorted((cw - cg).elements())
                        sig = "selection:extra" if extra else "selection:missing"
                        res.report(sig, f"{args}: checked but not requested {extra}; requested but not checked {missing}", rp)
                if sorted(msgs) != sorted(wmsgs):
                    res.report("messages", f"{args}: messages {msgs}, expected {wmsgs}", rp)
            # humanized run: base names only
            if not abort and k % 4 == 0:
                h = main_inprocess([x for x in full_argv if x not in ("-f", "json")], root)
                heads = [l[: l.rfind(": ")] for l in h["stdout"].split("\n") if l.endswith(": OK!") or l.endswith(": Error!")]
                if sorted(heads) != sorted(os.path.basename(p) for p in (want or [])):
                    res.report("basename", f"{args}: verdict lines {heads} vs base names of {want}", rp)
            if model_ok:
                reqs.append({"op": "select", "tree": [{"p": [cps(c) for c in p], "d": d} for p, d in ents],
                             "argv": [[cps(c) for c in a] for a in argv]})
                metas.append((args, got, msgs, out["exit"], rp))
        if model_ok and reqs:
            nbad, first = 0, None
            for (args, got, msgs, code, rp), m in zip(metas, Driver().batch(reqs)):
                res.traces_validated += 1
                ok = "error" not in m
                if ok:
                    mf = [uncps(x) for x in m["files"]]
                    mm = [uncps(x) for x in m["msgs"]]
                    ok = (m["abort"] == (got is None and code == 1)) if m["abort"] else True
                    ok = ok and (m["abort"] or collections.Counter(mf) == collections.Counter(got or []))
                    ok = ok and sorted(mm) == sorted(msgs)
                if not ok:
                    nbad += 1
                    first = first or (args, got, msgs, code, str(m)[:300])
            if nbad:
                res.broken.append(f"correspondence select: {nbad} disagreements, e.g. {first}")
        res.sample({"select": metas[1][4] if len(metas) > 1 else None})
        gitignore_stream(res, tmp, rng, 6 if tier != "thorough" else 40)
    finally:
        shutil.rmtree(tmp, ignore_errors=True)


def gitignore_stream(res, tmp, rng, n):
    """--use-gitignore: ignored files are left out (oracle = git's own answer per file)."""
    from impl import run_cli
    for k in range(n):
        root = os.path.join(tmp, f"g{k}")
        os.makedirs(root)
        tree = gen_tree(rng)
        materialise(tree, root)
        pats = rng.sample(["*.h", "src/", "a.c", "my file.c", "deep/**", "x.y.c", "inc/*.c", "!a.c"], rng.randint(1, 3))
        open(os.path.join(root, ".gitignore"), "w").write("\n".join(pats) + "\n")
        subprocess.run(["git", "init", "-q", "."], cwd=root, stdout=subprocess.DEVNULL, stderr=subprocess.DEVNULL)
        out = run_cli(["-f", "json", "--use-gitignore"], root)
        res.count("gitignore", 1)
        rp = {"kind": "gitignore", "tree": tree, "patterns": pats}
        if out["exit"] is None or "Traceback" in out["stderr"]:
            res.report("crash:gitignore", f"--use-gitignore run failed: {out['stderr'][-200:]}", rp)
            continue
        try:
            doc = json.loads([l for l in out["stdout"].split("\n") if l.startswith("{")][-1])
            got = sorted(os.path.relpath(f["path"], os.path.realpath(root)) for f in doc["files"])
        except Exception:
            got = []
        want, _, _ = expected_by_walk(root, [])
        kept = []
        for p in want:
            rc = subprocess.run(["git", "check-ignore", "-q", p], cwd=root).returncode
            if rc == 1:
                kept.append(p)
        if got != sorted(kept):
            res.report("gitignore:selection", f"patterns {pats}: checked {got}, git keeps {sorted(kept)}", rp)
        if len(kept) != len(want):
            res.nontriv(("git", str(tree), str(pats)))


def replay(rp):
    import core
    from impl import main_inprocess
    if rp.get("kind") != "select":
        print("replay:", rp.get("kind"), rp.get("broken") or rp)
        return 1
    d = tempfile.mkdtemp(prefix="verif_c15r_")
    try:
        def conv(t):
            return [(n, c if (c is None or isinstance(c, str)) else conv(c)) for n, c in t]
        tree = conv(rp["tree"])
        materialise(tree, d)
        out = main_inprocess(rp.get("full_argv") or (["-f", "json"] + rp["argv"]), d)
        print("argv  :", rp["argv"]); print("stdout:", out["stdout"][:800]); print("exit  :", out["exit"])
        want, wmsgs, abort = expected_by_walk(d, [tuple(a.split("/")) for a in rp["argv"]])
        print("expected selection:", want, "messages:", wmsgs, "abort:", abort)
        jl = [l for l in out["stdout"].split("\n") if l.startswith("{")]
        got = [os.path.relpath(f["path"], os.path.realpath(d)) for f in json.loads(jl[-1])["files"]] if jl else None
        if abort:
            return 0 if out["exit"] != 0 and not got else 1
        return 0 if collections.Counter(got or []) == collections.Counter(want) else 1
    finally:
        shutil.rmtree(d, ignore_errors=True)
