#!/bin/sh
# MANIFEST.setup_cmd: regenerate the tables from /repo and build model, proofs and driver (offline).
set -e
cd "$(dirname "$0")"
PYTHONPATH=/repo /venv/bin/python harness/gen_tables.py
cd lean
lake build NormModel driver
