#!/usr/bin/env python3
"""Writes /verif/MANIFEST.json from the table below (single source of truth for what is claimed)."""
import json, os

CHECKS = {
 "C01": ("4.1", "For EVERY rule table (file-level Lean theorems over complete ports composed with the engine loop): CheckSpacing adds nothing to a file whose blanks are clean (no SPACE at column 1, next to a blank or before a newline; no TAB before a newline), CheckTernary/CheckLineLen add nothing to a file without `?` whose tokens start at or before column 81, a well-formed 42 header yields no INVALID_HEADER. The full statement (every program of the conforming grammar gets only Notices) needs every rule ported and is NOT proved. Proved fragments: verdict and exit plumbing (all-Notice files are OK, exit 0), the 42 header (C13.accept), integer constants (C11.int_valid), the 80-column limit (no token of a file whose lines are <= 80 columns starts beyond column 81, so CheckLineLen is silent). Everything else is decided per generated program by the acceptance oracle on the real pipeline (partial)",
         "Lean 4 proof (complete ports of the always-run checks composed with the engine-loop partition; modelled clauses) + always-stream correspondence + acceptance oracle over grammar-generated programs"),
 "C02": ("4.2", "For EVERY rule table (file-level Lean theorems): in a file that reaches a verdict every `?` token gets TERNARY_FBIDDEN at its position, every line wider than 80 columns ending in a newline token gets LINE_TOO_LONG, a trailing blank run starting with a SPACE gets SPC_BEFORE_NL at that SPACE, a file not beginning with a header comment gets exactly one INVALID_HEADER. The full statement (every catalogue operator at every site yields its code on the edited line) is NOT proved. Proved fragments: the modelled rules emit their code when handed the pattern (line length, header, include guard, the four counters) and one Error-level diagnostic makes the file Error! with non-zero exit. The segmentation hypothesis and all other rules are decided per (program, operator, site) by the catalogue oracle on the real pipeline (partial)",
         "Lean 4 proof (complete ports of the always-run checks composed with the engine-loop partition; loop-reachability lemma for CheckSpacing) + always-stream correspondence + violation-catalogue oracle (91 edit operators)"),
 "C03": ("4.3", "End to end for EVERY rule table: on every file that reaches a verdict the lines CheckLineLen reports are exactly the lines holding a token whose first raw character is at a visual column beyond 81 (linelen_e2e / linelen_source / long_line_reported, composing the lexer position theorem C09, the engine partition C07 and the ported check). Lean theorems: CheckLineLen reports a line iff some token of the statement on it starts beyond column 81, each line at most once; the NEWLINE token ending a line of visual width w (tab stops 4) is at column w+1 whatever precedes the line, hence a code line ending in a newline is reported iff w > 80; CheckLineLen runs after every matched primary; `//` and block-comment lines are reported iff their width exceeds 80 (first/interior/last line); the four counters are compared exactly at 25/5/4/5. That the counters equal the measured quantities is maintained by unported rules and decided by the boundary oracle at L-3..L+6 in generated contexts (partial)",
         "Lean 4 proof (membership characterisation of the line-length scan + position spec) + rule-snapshot correspondence + boundary oracle"),
 "C04": ("4.4", "Lean theorems about cliRun (tail of main): one verdict per file in order, OK iff no Error-level diagnostic, exit 0 iff every file OK for every list of files (any length/order/repetition), first fatal file named with non-zero exit, empty run exits 0; tied to __main__.py by a byte-exact correspondence of stdout and exit status on the real main()",
         "Lean 4 proof (induction over the file list) + cli correspondence + CLI oracle"),
 "C05": ("4.5", "Lean theorem lex_total: the tokenizer model returns tokens and diagnostics for every string (no KeyError, fuel never exhausted: every round consumes input) — full strength for part (a); part (b) (whole pipeline) is decided by the engine-loop theorems (progress/termination of Registry.run for any rule table whose rules return) plus an oracle over token prefixes and token edits of conforming/violating programs with crash/hang signatures; unported rules are assumptions",
         "Lean 4 proof (refinement + well-founded fuel) + lex correspondence + pipeline fault search"),
 "C06": ("4.6", "Lean theorems: for every permutation of the rules directory listing the order of the primaries and of every dependency list is the one the real code computed (stable sort, pairwise distinct priorities and names — obligations re-checked on the regenerated rule table), and frame facts regenerated from the AST show no state shared between files (class-level mutable attributes, module-level writes, globals); 'alone = twice = after any history = any order' is validated by running every file alone in a fresh interpreter and inside random/targeted histories and permuted listings (partial: not proved end to end)",
         "Lean 4 proof (uniqueness of a stable sort under injective keys) + frame-fact obligations + history/permutation differential runs"),
 "C07": ("4.7", "Lean theorems about the loop of Registry.run for EVERY rule table (the rule decisions are universally quantified): consumed statements and unrecognised tokens partition the token list (each index covered exactly once), every statement consumes >= 1 token, with debug=0 a run that reaches a verdict has no unrecognised token (nothing dropped silently), the loop terminates whenever rule calls return; the conforming-file alignment and depth clauses depend on unported rules and are checked by an oracle on the observed trace (partial)",
         "Lean 4 proof (loop invariant: cover count = 1) + engine-trace correspondence"),
 "C08": ("4.8", "Lean theorems: Error.__lt__ restricted to diagnostics with a highlight is a strict weak order for all positions/names, the printed order is ascending in the displayed (line, col) with ties by code, sorting is a permutation, status OK iff only Notices, JSON document projects exactly onto the humanized document, every lexer diagnostic has a highlight and a catalogue code; tied by sort/fmt correspondences (byte-exact text) and the regenerated catalogue",
         "Lean 4 proof (order theory on the comparator, stable sort) + sort/fmt correspondence"),
 "C09": ("4.9", "Lean theorem token_positions: for every source text every token's (line, col) equals the visual position (tab stops 4, raw characters) of its first raw character — proved by refinement of every lexer primitive to Spec.advPos; tied to lexer.py by the lex correspondence (exhaustive short strings + structured samples) and an independent raw scanner on the implementation",
         "Lean 4 proof (refinement of pop/peek/sub-lexers to the position spec)"),
 "C10": ("4.10", "Lean theorems tiling/progress/bad_reported/all_consumed: items (tokens + reported bad lexemes) tile the source, gaps are line splices only, every item non-empty, every bad lexeme reported at its position; content equality (token text = normalised slice) is decided per input by the correspondence and the independent scanner (partial)",
         "Lean 4 proof (tiling invariant by induction over the token stream)"),
 "C11": ("4.11", "Lean theorem C11.int_valid: every well-formed integer constant of C11 6.4.4.1 (decimal, octal, hexadecimal, binary; digit strings of any length; every suffix of the table) becomes exactly one CONSTANT token with its exact text and no diagnostic, at any position and for any allowed continuation; floats, character/string constants and the malformed families are decided per input (correspondence with the model + independent recogniser), with closed kernel-evaluated witnesses of each malformed family (partial)",
         "Lean 4 proof (span lemmas over the specialised matchers, induction-free over unbounded digit strings) + literal-family correspondence"),
 "C12": ("4.12", "Lean theorems (lexer half): the digraph/trigraph tables are exactly the standard's; `peek` returns the standard character for every table entry and every continuation; braces and brackets yield the same token kind in every spelling and lexing continues at the same place; inter-token splices in both spellings are skipped before any sub-lexer runs. The whole-sequence simulation, longest-match for multi-character operators (checked exhaustively over operators x spellings x contexts) and the diagnostics clause are decided by oracle/correspondence (partial)",
         "Lean 4 proof (table obligations + peek/pop lemmas) + respelling oracle and lex correspondence"),
 "C13": ("4.13", "File level, for EVERY rule table: CheckHeader over a whole file is the state machine over the statements of the engine trace: at most one INVALID_HEADER per file, exactly one when the file does not begin with a header comment, none after a well-formed header. Lean theorems about the pattern CheckHeader compiles (captured and translated to a sequence of atoms on every run; obligation: it has exactly the eleven-line shape) and about the three-flag state machine of CheckHeader.run: every well-formed standard header — any file name, login, e-mail, stamps, art — matches the pattern and the file never gets INVALID_HEADER whatever follows; INVALID_HEADER is emitted at most once for every statement sequence; a file whose first statement is not an own-line block comment gets it exactly once. Mutations inside the header are decided by the oracle and the regex correspondence (partial)",
         "Lean 4 proof (explicit decomposition against the translated pattern; fold invariant of the state machine) + regex/state-machine correspondences"),
 "C14": ("4.14", "Lean theorems about the decision logic of CheckPreprocessorProtection.run (Model/Guard.lean) for every header base name over [a-z0-9_.] and every macro symbol: the guard symbol is the upper-cased name with dots replaced; .c files are never checked; the correct guard is accepted; a different symbol gives HEADER_PROT_NAME / _UPPER, a missing #define _NODEF, a second outermost #ifndef _MULT, code before / after _ALL / _ALL_AF. What the rule reads from the context (indent, macro table, history) is maintained by unported rules and is observed: every real call of the rule is replayed through the model (partial)",
         "Lean 4 proof (case analysis of the decision function, universally quantified symbols) + rule-snapshot correspondence"),
 "C15": ("4.15", "Lean theorems about the work-list loop of main over a file-system model: when every argument exists the selection is exactly the named .c/.h files in order followed by the non-hidden *.c/*.h regular files below each named directory, once per mention; a missing path aborts with nothing analysed; no argument = the cwd tree; other suffixes contribute nothing; tied to __main__.py by the select correspondence on generated trees and an independent os.walk oracle; --use-gitignore compared against git's own answers",
         "Lean 4 proof (fold invariant over the argument list) + select correspondence"),
 "C16": ("4.16", "Lean theorems: in the model of main's tail the humanized and the JSON run report the same files, verdicts and diagnostics in the same order with the same exit status for every list of analysed files (format_independent, from C04/C08); the regenerated argparse table and the list of `args` attributes main reads are the ones the model accounts for; the modules reading `.debug` are the known ones. That `debug`/-R do not change diagnostics, -R CheckDefine removes only #define-value diagnostics and inline content equals stored content is decided by the option oracle over all option combinations (partial)",
         "Lean 4 proof (corollary of the formatter theorems) + table obligations + option-combination oracle"),
 "C17": ("4.17", "Lean theorems (lexer half): inside a literal every opaque character is consumed as itself, one column, no diagnostic, and two string bodies of the same length leave the lexer in the same state with the same diagnostics; the engine half (no rule looks inside comment/literal values) is decided by the same-width swap oracle on the real pipeline (partial)",
         "Lean 4 proof (induction over the literal body) + swap oracle"),
 "C18": ("4.18", "Lean theorems (lexer half): the identifier sub-lexer's result depends only on the identifier's length and on membership in the regenerated keyword table; the engine half (rules read spellings only through length/prefix/class) is decided by the consistent-renaming oracle on the real pipeline (partial)",
         "Lean 4 proof (induction over the identifier) + renaming oracle"),
 "C19": ("4.19", "Lean theorems (position half): prepending complete lines shifts the visual position of every later offset by exactly that many lines and leaves the column unchanged (visualPos_prefix), hence by C09 a token at the corresponding offset is reported that many lines lower in the same column; the loop of Registry.run is a left fold (C07). Line-equivariance and history-transparency of the rules are decided by the locality oracle on the real pipeline: header prepended, comment line inserted above a definition, conforming function appended (partial)",
         "Lean 4 proof (fold lemma over the position spec) + locality oracle"),
}

NOT_YET = {
}

def entry(pid, sec, text, tech):
    return {
        "property_id": pid,
        "quick_cmd": f"./check {pid} quick",
        "thorough_cmd": f"./check {pid} thorough",
        "evidence_file": f"evidence/{pid}.json",
        "replay_cmd_template": f"./check {pid} quick --replay {{path}}",
        "engine": "lean-model",
        "level_claimed": {"category": "proof", "text": text, "design_ref": f"DESIGN.md §{sec}"},
        "level_note": "Trusted: Lean 4.33 kernel (axioms propext, Classical.choice, Quot.sound only; audited every run), the table generator harness/gen_tables.py, the correspondence harness and its generators; Model/*.lean is a hand transcription validated behaviourally on every run, not verified; platform assumptions A1-A9 of DESIGN §3.3",
        "technique": tech,
    }

props = [json.loads(l) for l in open(os.path.join(os.path.dirname(__file__), "..", "properties.jsonl"))]
m = {
 "version": 1,
 "setup_cmd": "./setup.sh",
 "hooks": {
  "guard": "NORMINETTE_VERIF",
  "enable": "no source hook is needed: the harness observes the real code by calling it in-process (monkeypatching where internals are observed); the guard name is reserved",
  "baseline_off_cmd": "cd /repo && /venv/bin/python -m pytest -ra -q -p no:cacheprovider --timeout=900",
  "source_commits": [],
  "add_only": True,
 },
 "engines": [{"name": "lean-model", "path": "lean/", "serves_properties": sorted(CHECKS),
              "kind_free_text": "Lean 4 model (NormModel/Model) + theorems (NormModel/Properties) + compiled line-protocol driver; tables regenerated from /repo each run; Python correspondence harness under harness/"}],
 "checks": [entry(pid, *CHECKS[pid]) for pid in sorted(CHECKS)],
 "notes": "see DESIGN.md; known_findings.json lists known and fixed defects; seeded/ holds confirmed seeded changes and which check catches them",
 "not_applicable": [{"property_id": p["id"], "reason": NOT_YET.get(p["id"], "not claimed yet in this commit: model/theorems for this property are still being built (see DESIGN.md §6 staging); no check is registered rather than registering an unsound one")}
                    for p in props if p["id"] not in CHECKS],
}
json.dump(m, open(os.path.join(os.path.dirname(__file__), "..", "MANIFEST.json"), "w"), indent=1)
print("checks:", [c["property_id"] for c in m["checks"]], "not_applicable:", len(m["not_applicable"]))
