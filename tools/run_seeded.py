#!/usr/bin/env python3
"""run_seeded.py [--all] [ids...]: apply each seeded change to /repo, run the quick check of the
property it breaks (with --all: every registered check), undo the change, record the outcome in
seeded/<id>/meta.json and seeded/RESULTS.md."""
import os, sys, json, subprocess, time

VERIF = os.path.dirname(os.path.dirname(os.path.abspath(__file__)))
SEEDED = os.path.join(VERIF, "seeded")
allchecks = "--all" in sys.argv
ids = [a for a in sys.argv[1:] if not a.startswith("--")] or sorted(d for d in os.listdir(SEEDED) if os.path.isdir(os.path.join(SEEDED, d)))
manifest = json.load(open(os.path.join(VERIF, "MANIFEST.json")))
props = [c["property_id"] for c in manifest["checks"]]
rows = []
for sid in ids:
    d = os.path.join(SEEDED, sid)
    patch = os.path.join(d, "patch.diff")
    meta = json.load(open(os.path.join(d, "meta.json")))
    prop = meta.get("property") or sid.split("-")[0]
    assert subprocess.run(["git", "-C", "/repo", "status", "--porcelain"], capture_output=True, text=True).stdout.strip() == "", "/repo not clean"
    a = subprocess.run(["git", "-C", "/repo", "apply", patch], capture_output=True, text=True)
    if a.returncode != 0:
        rows.append((sid, prop, "PATCH-DOES-NOT-APPLY", ""))
        continue
    try:
        results = {}
        for p in (props if allchecks else [prop]):
            t0 = time.time()
            try:
                r = subprocess.run(["./check", p, "quick"], cwd=VERIF, capture_output=True, text=True, timeout=1800)
                lines = [l for l in r.stdout.split("\n") if l.startswith("VIOLATION")]
                results[p] = {"exit": r.returncode, "violation_lines": lines[:3], "first_detail": next((l.strip() for l in r.stdout.split("\n") if l.startswith("  ")), "")[:300],
                              "wall_s": round(time.time() - t0, 1)}
            except subprocess.TimeoutExpired:
                results[p] = {"exit": 2, "violation_lines": [], "first_detail": "timeout", "wall_s": 1800}
    finally:
        subprocess.run(["git", "-C", "/repo", "checkout", "--", "."], check=True)
    meta["checks_run_with_change_applied"] = results
    meta["detected_by"] = sorted(p for p, r in results.items() if r["exit"] == 1)
    json.dump(meta, open(os.path.join(d, "meta.json"), "w"), indent=1)
    own = results.get(prop, {})
    nf = any("no-failing-input-found" in l for l in own.get("violation_lines", []))
    rows.append((sid, prop, "DETECTED" + (" (no-failing-input-found)" if nf else "") if own.get("exit") == 1 else f"MISSED (exit {own.get('exit')})",
                 own.get("first_detail", "")[:160]))
    print(rows[-1], flush=True)
# the table always lists every seeded change, from what its meta.json records
rows = []
for sid in sorted(d for d in os.listdir(SEEDED) if os.path.isdir(os.path.join(SEEDED, d))):
    meta = json.load(open(os.path.join(SEEDED, sid, "meta.json")))
    prop = meta.get("property") or sid.split("-")[0]
    own = (meta.get("checks_run_with_change_applied") or {}).get(prop)
    if own is None:
        rows.append((sid, prop, "NOT RUN", ""))
        continue
    nf = any("no-failing-input-found" in l for l in own.get("violation_lines", []))
    rows.append((sid, prop, "DETECTED" + (" (no-failing-input-found)" if nf else "") if own.get("exit") == 1 else f"MISSED (exit {own.get('exit')})",
                 own.get("first_detail", "")[:160]))
with open(os.path.join(SEEDED, "RESULTS.md"), "w") as f:
    f.write("# Seeded changes vs checks (quick tier, change applied to /repo, then undone)\n\n| seeded | property | own check | first detail |\n|---|---|---|---|\n")
    for r in rows:
        f.write(f"| {r[0]} | {r[1]} | {r[2]} | {r[3].replace('|', '/')} |\n")
print("written", os.path.join(SEEDED, "RESULTS.md"))
