#!/usr/bin/env python3
"""confirm_mutant.py <src dir with patch.diff demo.py meta.json> <seeded id>
Confirms, in a scratch worktree of /repo's HEAD (outside /repo and /verif, removed afterwards):
 demo passes without the patch; patch applies; the unedited test-suite passes with it; demo fails with it.
On success copies the three files to /verif/seeded/<id>/ and records what was run."""
import os, sys, json, shutil, subprocess, tempfile

src, sid = sys.argv[1], sys.argv[2]
PY = "/venv/bin/python"
wt = tempfile.mkdtemp(prefix="wtc_", dir="/tmp")
os.rmdir(wt)
def sh(cmd, **kw):
    return subprocess.run(cmd, shell=True, stdout=subprocess.PIPE, stderr=subprocess.STDOUT, text=True, **kw)
log = {}
try:
    r = sh(f"git -C /repo worktree add -q --detach {wt} HEAD"); assert r.returncode == 0, r.stdout
    env = dict(os.environ, PYTHONPATH=wt)
    demo = os.path.abspath(os.path.join(src, "demo.py"))
    r0 = subprocess.run([PY, demo], cwd="/tmp", env=env, stdout=subprocess.PIPE, stderr=subprocess.STDOUT, text=True, timeout=900)
    log["demo_without_patch_exit"] = r0.returncode
    r = sh(f"git -C {wt} apply {os.path.abspath(os.path.join(src, 'patch.diff'))}")
    log["patch_applies"] = r.returncode == 0
    if r.returncode != 0:
        log["apply_error"] = r.stdout[-500:]
    else:
        t = subprocess.run([PY, "-m", "pytest", "-q", "-p", "no:cacheprovider"], cwd=wt, env=env, stdout=subprocess.PIPE, stderr=subprocess.STDOUT, text=True, timeout=900)
        log["suite_with_patch"] = t.stdout.strip().split("\n")[-1]
        log["suite_ok"] = t.returncode == 0 and "514 passed" in t.stdout
        r1 = subprocess.run([PY, demo], cwd="/tmp", env=env, stdout=subprocess.PIPE, stderr=subprocess.STDOUT, text=True, timeout=900)
        log["demo_with_patch_exit"] = r1.returncode
        log["demo_with_patch_output"] = r1.stdout[-600:]
finally:
    sh(f"git -C /repo worktree remove --force {wt}")
    shutil.rmtree(wt, ignore_errors=True)
ok = log.get("demo_without_patch_exit") == 0 and log.get("patch_applies") and log.get("suite_ok") and log.get("demo_with_patch_exit") == 1
log["confirmed"] = bool(ok)
print(json.dumps(log, indent=1))
if ok:
    dst = os.path.join("/verif/seeded", sid)
    os.makedirs(dst, exist_ok=True)
    for f in ("patch.diff", "demo.py"):
        shutil.copy(os.path.join(src, f), os.path.join(dst, f))
    meta = json.load(open(os.path.join(src, "meta.json")))
    meta["confirmation"] = log
    meta["repo_head_at_confirmation"] = sh("git -C /repo rev-parse --short HEAD").stdout.strip()
    json.dump(meta, open(os.path.join(dst, "meta.json"), "w"), indent=1)
sys.exit(0 if ok else 1)
